package g1lib

import (
	"context"
	"encoding/json"
	"fmt"
	"math"
	"math/big"
	"math/rand"
	"strconv"
	"strings"
	"time"
	"unicode/utf8"

	"github.com/cockroachdb/apd/v3"

	"github.com/dolthub/go-mysql-server/sql"
	"github.com/dolthub/go-mysql-server/sql/types"
)

// Raw is one generated input value for a type, with the reference's judgement of it.
type Raw struct {
	V     any    // the Go value handed to Compare / Convert / SQL
	Repr  string // Go representation class: int64, uint64, int8.., string, bytes, float64, float32, decimal, time, timespan, duration, bool, json
	Class string // input class (boundary, in-range, above-max, malformed, ...): part of the distinct keys and of narrow signatures
	// Exact: the reference says V denotes exactly one value of the type and conversion into the type preserves it
	// (no rounding, padding, clamping, truncation). Only Exact values take part in the law
	// cmp(a,b) = cmp(Convert a, Convert b) of C26.
	Exact bool
	// Accept: +1 the reference is certain the value must be stored without complaint as Want;
	// -1 the reference is certain the value is out of range / over-long / malformed for the type and must be
	// rejected or flagged; 0 not judged (ambiguous MySQL semantics, cross-kind rounding, ...).
	Accept int
	Want   any    // expected stored Go value when Accept=+1
	Lit    string // SQL literal that denotes V ("" when there is none)
}

func (r Raw) String() string { return fmt.Sprintf("%s:%s:%s", r.Repr, r.Class, Show(r.V)) }

// Show renders a Go value for witnesses.
func Show(v any) string {
	switch x := v.(type) {
	case nil:
		return "NULL"
	case string:
		return fmt.Sprintf("%q", x)
	case []byte:
		return fmt.Sprintf("bytes(%x)", x)
	case *apd.Decimal:
		return "dec(" + x.Text('f') + ")"
	case time.Time:
		return "time(" + x.Format("2006-01-02 15:04:05.999999999 -0700") + ")"
	case types.Timespan:
		return "timespan(" + x.String() + ")"
	case float64:
		return "f64(" + strconv.FormatFloat(x, 'g', -1, 64) + ")"
	case float32:
		return "f32(" + strconv.FormatFloat(float64(x), 'g', -1, 32) + ")"
	case sql.JSONWrapper:
		s, err := types.JsonToMySqlString(context.Background(), x)
		if err != nil {
			return "json(?)"
		}
		return "json(" + s + ")"
	}
	return fmt.Sprintf("%T(%v)", v, v)
}

// Gen draws one raw value for the type.
func Gen(s *Spec, rnd *rand.Rand) Raw {
	switch s.Kind {
	case "int":
		return genInt(s, rnd)
	case "float":
		return genFloat(s, rnd)
	case "decimal":
		return genDecimal(s, rnd)
	case "char":
		return genChar(s, rnd)
	case "binary":
		return genBinary(s, rnd)
	case "date", "datetime", "timestamp":
		return genDatetime(s, rnd)
	case "time":
		return genTime(s, rnd)
	case "year":
		return genYear(s, rnd)
	case "enum":
		return genEnum(s, rnd)
	case "set":
		return genSet(s, rnd)
	case "bit":
		return genBit(s, rnd)
	case "json":
		return genJSON(s, rnd)
	}
	panic("unknown kind " + s.Kind)
}

// Pool draws n raw values; values repeat on purpose (small pools provoke equalities).
func Pool(s *Spec, rnd *rand.Rand, n int) []Raw {
	out := make([]Raw, 0, n)
	for len(out) < n {
		r := Gen(s, rnd)
		out = append(out, r)
		// now and then the same denotation in another representation right next to it
		if rnd.Intn(4) == 0 && len(out) < n {
			out = append(out, Gen(s, rand.New(rand.NewSource(rnd.Int63()))))
		}
	}
	return out
}

// ---------------------------------------------------------------- integers

var intBoundaries = func() []*big.Int {
	var out []*big.Int
	for _, b := range []string{"-128", "127", "255", "-32768", "32767", "65535", "-8388608", "8388607", "16777215",
		"-2147483648", "2147483647", "4294967295", "-9223372036854775808", "9223372036854775807", "18446744073709551615",
		"9007199254740992", "-9007199254740992"} {
		v := bi(b)
		out = append(out, v, new(big.Int).Add(v, big.NewInt(1)), new(big.Int).Sub(v, big.NewInt(1)))
	}
	for _, k := range []int64{0, 1, -1, 2, -2, 10, 100, 69, 70} {
		out = append(out, big.NewInt(k))
	}
	return out
}()

var (
	minI64 = bi("-9223372036854775808")
	maxI64 = bi("9223372036854775807")
	maxU64 = bi("18446744073709551615")
	two53  = bi("9007199254740992")
)

func pickBig(rnd *rand.Rand, s *Spec) *big.Int {
	switch rnd.Intn(10) {
	case 0, 1, 2, 3:
		return intBoundaries[rnd.Intn(len(intBoundaries))]
	case 4, 5, 6:
		// inside the type's own range
		span := new(big.Int).Sub(s.Max, s.Min)
		x := new(big.Int).Rand(rnd, span.Add(span, big.NewInt(1)))
		return x.Add(x, s.Min)
	case 7:
		// just outside the range
		d := big.NewInt(int64(rnd.Intn(3) + 1))
		if rnd.Intn(2) == 0 {
			return new(big.Int).Add(s.Max, d)
		}
		return new(big.Int).Sub(s.Min, d)
	case 8:
		x := big.NewInt(rnd.Int63())
		if rnd.Intn(2) == 0 {
			x.Neg(x)
		}
		return x.Rsh(x, uint(rnd.Intn(62)))
	}
	// beyond 64 bits
	x := new(big.Int).Lsh(big.NewInt(int64(rnd.Intn(1000)+1)), uint(64+rnd.Intn(30)))
	if rnd.Intn(2) == 0 {
		x.Neg(x)
	}
	return x
}

// StoredInt makes the Go value the engine stores for integer x in the type.
func StoredInt(s *Spec, x *big.Int) any {
	signed := s.Min.Sign() < 0
	switch s.Bits {
	case 8:
		if signed {
			return int8(x.Int64())
		}
		return uint8(x.Uint64())
	case 16:
		if signed {
			return int16(x.Int64())
		}
		return uint16(x.Uint64())
	case 24, 32:
		if signed {
			return int32(x.Int64())
		}
		return uint32(x.Uint64())
	}
	if signed {
		return x.Int64()
	}
	return x.Uint64()
}

func inRange(s *Spec, x *big.Int) bool { return x.Cmp(s.Min) >= 0 && x.Cmp(s.Max) <= 0 }

func intClass(s *Spec, x *big.Int) string {
	switch {
	case x.Cmp(s.Min) == 0 || x.Cmp(s.Max) == 0:
		return "boundary"
	case x.Cmp(s.Max) > 0:
		return "above-max"
	case x.Cmp(s.Min) < 0:
		return "below-min"
	}
	return "in-range"
}

func genInt(s *Spec, rnd *rand.Rand) Raw {
	if rnd.Intn(12) == 0 {
		return junkNumber(s, rnd, true)
	}
	x := pickBig(rnd, s)
	ok := inRange(s, x)
	r := Raw{Class: intClass(s, x), Exact: ok}
	if ok {
		r.Accept, r.Want = +1, StoredInt(s, x)
	} else {
		r.Accept = -1
	}
	fitsI64 := x.Cmp(minI64) >= 0 && x.Cmp(maxI64) <= 0
	fitsU64 := x.Sign() >= 0 && x.Cmp(maxU64) <= 0
	switch k := rnd.Intn(10); {
	case k <= 3 && fitsI64:
		v := x.Int64()
		r.Lit = x.String()
		// narrowest or a random wider Go integer type
		switch {
		case v >= -128 && v <= 127 && rnd.Intn(3) == 0:
			r.V, r.Repr = int8(v), "int8"
		case v >= 0 && v <= 255 && rnd.Intn(3) == 0:
			r.V, r.Repr = uint8(v), "uint8"
		case v >= -32768 && v <= 32767 && rnd.Intn(3) == 0:
			r.V, r.Repr = int16(v), "int16"
		case v >= 0 && v <= 65535 && rnd.Intn(3) == 0:
			r.V, r.Repr = uint16(v), "uint16"
		case v >= math.MinInt32 && v <= math.MaxInt32 && rnd.Intn(3) == 0:
			r.V, r.Repr = int32(v), "int32"
		case v >= 0 && v <= math.MaxUint32 && rnd.Intn(3) == 0:
			r.V, r.Repr = uint32(v), "uint32"
		case rnd.Intn(4) == 0:
			r.V, r.Repr = int(v), "int"
		default:
			r.V, r.Repr = v, "int64"
		}
	case k <= 4 && fitsU64:
		r.V, r.Repr, r.Lit = x.Uint64(), "uint64", x.String()
	case k <= 6:
		r.V, r.Repr, r.Lit = x.String(), "string", Quote(x.String())
	case k <= 7:
		d, _, _ := apd.NewFromString(x.String())
		r.V, r.Repr, r.Lit = d, "decimal", x.String()
		if x.BitLen() > 64 {
			r.Lit = ""
		}
	case k <= 8 && new(big.Int).Abs(x).Cmp(two53) <= 0:
		f, _ := new(big.Float).SetInt(x).Float64()
		r.V, r.Repr = f, "float64"
	default:
		if fitsI64 {
			r.V, r.Repr, r.Lit = x.Int64(), "int64", x.String()
		} else {
			r.V, r.Repr, r.Lit = x.String(), "string", Quote(x.String())
		}
	}
	return r
}

// junkNumber: malformed or ambiguous numeric inputs.
func junkNumber(s *Spec, rnd *rand.Rand, isInt bool) Raw {
	type j struct {
		v      any
		repr   string
		class  string
		accept int
	}
	js := []j{
		{"abc", "string", "malformed-alpha", -1},
		{"12abc", "string", "malformed-trailing-garbage", -1},
		{"--5", "string", "malformed-alpha", -1},
		{"0x1A", "string", "hex-text", -1},
		{" 12", "string", "leading-space", 0},
		{"12 ", "string", "trailing-space", 0},
		{"+5", "string", "plus-sign", 0},
		{"1e2", "string", "exponent-text", 0},
		{"12.5", "string", "fraction-text", 0},
		{"", "string", "empty-string", 0},
		{12.5, "float64", "fraction", 0},
		{-0.4, "float64", "fraction", 0},
		{math.Inf(1), "float64", "infinity", -1},
		{math.Inf(-1), "float64", "infinity", -1},
		{true, "bool", "bool", 0},
		{[]byte{0x01, 0x02}, "bytes", "bytes-as-number", 0},
	}
	if !isInt {
		js = append(js, j{"1.5abc", "string", "malformed-trailing-garbage", -1}, j{"nan", "string", "nan-text", -1},
			j{"inf", "string", "inf-text", -1})
	}
	p := js[rnd.Intn(len(js))]
	r := Raw{V: p.v, Repr: p.repr, Class: p.class, Accept: p.accept}
	if str, ok := p.v.(string); ok {
		r.Lit = Quote(str)
	}
	return r
}

// ---------------------------------------------------------------- floats

var floatPool = []float64{0, math.Copysign(0, -1), 1, -1, 0.5, -0.5, 0.1, 1.0 / 3, 1e-310, 5e-324, math.MaxFloat64, -math.MaxFloat64,
	math.MaxFloat32, -math.MaxFloat32, float64(math.SmallestNonzeroFloat32), 1e-50, 16777216, 16777217, 9007199254740992, 9007199254740993,
	3.5e38, -3.5e38, 1e39, 1e300, -9.223372e+18, 9.223372036854775807e18, 1.8446744073709552e19, 123456.789, 1e15, 1e16, 1e-5, 123456789012345678}

func genFloat(s *Spec, rnd *rand.Rand) Raw {
	if rnd.Intn(12) == 0 {
		r := junkNumber(s, rnd, false)
		if r.Repr == "float64" {
			f := r.V.(float64)
			if math.IsInf(f, 0) {
				r.Accept = -1
			} else {
				r = floatRaw(s, f, "float64", rnd)
			}
		}
		if r.Class == "empty-string" || r.Class == "leading-space" || r.Class == "trailing-space" || r.Class == "plus-sign" {
			r.Accept = 0
		}
		if r.Class == "exponent-text" || r.Class == "fraction-text" {
			f, _ := strconv.ParseFloat(r.V.(string), 64)
			r.Accept, r.Exact = +1, true
			if s.Bits == 32 {
				r.Want = float32(f)
			} else {
				r.Want = f
			}
		}
		return r
	}
	var f float64
	switch rnd.Intn(6) {
	case 0, 1:
		f = floatPool[rnd.Intn(len(floatPool))]
	case 2:
		f = math.Float64frombits(rnd.Uint64())
		if math.IsNaN(f) || math.IsInf(f, 0) {
			f = 1.5
		}
	case 3:
		f = float64(math.Float32frombits(rnd.Uint32()))
		if math.IsNaN(f) || math.IsInf(f, 0) {
			f = 2.5
		}
	case 4:
		f = float64(rnd.Intn(2001)-1000) / 8
	default:
		f = (rnd.Float64() - 0.5) * math.Pow(10, float64(rnd.Intn(40)-10))
	}
	reprs := []string{"float64", "float64", "string", "float32", "int64", "decimal", "overflow-text"}
	return floatRaw(s, f, reprs[rnd.Intn(len(reprs))], rnd)
}

func floatRaw(s *Spec, f float64, repr string, rnd *rand.Rand) Raw {
	r := Raw{Class: "finite"}
	is32 := s.Bits == 32
	storedOf := func(v float64) (any, int) {
		// what a FLOAT / DOUBLE column keeps for the real number v (nearest representable), and whether the
		// reference is sure the engine must accept it
		if !is32 {
			return v, +1
		}
		a := math.Abs(v)
		switch {
		case a <= math.MaxFloat32:
			return float32(v), +1
		case a >= 3.5e38:
			return nil, -1
		}
		return nil, 0
	}
	switch repr {
	case "float32":
		w := float32(f)
		if math.IsInf(float64(w), 0) {
			w = math.MaxFloat32
		}
		r.V, r.Repr, r.Exact, r.Accept = w, "float32", true, +1
		if is32 {
			r.Want = w
		} else {
			r.Want = float64(w)
		}
		r.Class = "float32-exact"
		return r
	case "int64":
		if math.Abs(f) < 9e18 {
			i := int64(f)
			r.V, r.Repr, r.Lit = i, "int64", strconv.FormatInt(i, 10)
			lim := int64(1) << 53
			if is32 {
				lim = 1 << 24
			}
			if i >= -lim && i <= lim {
				r.Exact, r.Accept = true, +1
				if is32 {
					r.Want = float32(i)
				} else {
					r.Want = float64(i)
				}
				r.Class = "integer-exact"
			} else {
				r.Class = "integer-rounded"
			}
			return r
		}
		repr = "float64"
	case "decimal":
		if a := math.Abs(f); a < 1e25 && (a > 1e-20 || a == 0) {
			txt := strconv.FormatFloat(f, 'f', -1, 64)
			d, _, err := apd.NewFromString(txt)
			if err == nil {
				r.V, r.Repr, r.Class = d, "decimal", "decimal-operand"
				return r
			}
		}
		repr = "float64"
	case "overflow-text":
		txt := []string{"1e400", "-1e400", "1e39", "-1e39", "1.8e308", "4e38"}[rnd.Intn(6)]
		r.V, r.Repr, r.Lit = txt, "string", Quote(txt)
		v, err := strconv.ParseFloat(txt, 64)
		if err != nil { // beyond DOUBLE
			r.Class, r.Accept = "text-beyond-double", -1
			return r
		}
		w, acc := storedOf(v)
		r.Class = "text-large"
		r.Accept, r.Want = acc, w
		if acc < 0 {
			r.Class = "text-beyond-float"
		}
		return r
	}
	if repr == "string" {
		txt := strconv.FormatFloat(f, 'g', -1, 64)
		if rnd.Intn(3) == 0 {
			txt = strconv.FormatFloat(f, 'f', -1, 64)
			if len(txt) > 60 {
				txt = strconv.FormatFloat(f, 'e', -1, 64)
			}
		}
		r.V, r.Repr, r.Lit = txt, "string", Quote(txt)
		w, acc := storedOf(f)
		r.Accept, r.Want = acc, w
		r.Exact = acc > 0 && (!is32 || float64(float32(f)) == f)
		r.Class = "text-shortest"
		return r
	}
	r.V, r.Repr = f, "float64"
	r.Lit = strconv.FormatFloat(f, 'e', -1, 64)
	w, acc := storedOf(f)
	r.Accept, r.Want = acc, w
	r.Exact = acc > 0 && (!is32 || float64(float32(f)) == f)
	switch {
	case f == 0:
		r.Class = "zero"
	case math.Abs(f) < 2.3e-308:
		r.Class = "subnormal"
	case acc < 0:
		r.Class = "beyond-float"
	case is32 && !r.Exact:
		r.Class = "rounds-to-float"
	}
	return r
}

// ---------------------------------------------------------------- decimals

func digits(rnd *rand.Rand, n int, leadNonZero bool) string {
	if n <= 0 {
		return ""
	}
	b := make([]byte, n)
	for i := range b {
		switch rnd.Intn(5) {
		case 0:
			b[i] = '9'
		case 1:
			b[i] = '0'
		default:
			b[i] = byte('0' + rnd.Intn(10))
		}
	}
	if leadNonZero && b[0] == '0' {
		b[0] = byte('1' + rnd.Intn(9))
	}
	return string(b)
}

func genDecimal(s *Spec, rnd *rand.Rand) Raw {
	if rnd.Intn(12) == 0 {
		r := junkNumber(s, rnd, false)
		switch r.Class {
		case "fraction", "bool", "bytes-as-number", "exponent-text", "fraction-text":
			r.Accept = 0
		}
		if r.Repr == "bytes" {
			r.V, r.Class = []byte("12"), "bytes-text"
		}
		return r
	}
	ip, fp := s.Prec-s.Scale, s.Scale
	ni := rnd.Intn(ip + 1)
	nf := rnd.Intn(fp + 1)
	class := "in-range"
	switch rnd.Intn(10) {
	case 0:
		ni, nf, class = ip, fp, "max-digits"
	case 1:
		ni, class = ip+1+rnd.Intn(3), "too-many-integer-digits"
	case 2:
		nf, class = fp+1+rnd.Intn(4), "excess-scale"
	}
	is, fs := digits(rnd, ni, true), digits(rnd, nf, false)
	if class == "max-digits" && rnd.Intn(2) == 0 {
		is, fs = strings.Repeat("9", ni), strings.Repeat("9", nf)
	}
	if class == "excess-scale" && rnd.Intn(2) == 0 { // a carry that may spill into the integer part
		is, fs = strings.Repeat("9", ni), strings.Repeat("9", nf)
	}
	txt := is
	if txt == "" {
		txt = "0"
	}
	if nf > 0 {
		txt += "." + fs
	}
	neg := rnd.Intn(3) == 0
	if neg {
		txt = "-" + txt
	}
	r := Raw{Class: class}
	want, _, _ := apd.NewFromString(txt)
	switch class {
	case "in-range", "max-digits":
		r.Exact, r.Accept, r.Want = true, +1, want
	case "too-many-integer-digits":
		r.Accept = -1
	}
	isIntegral := nf == 0
	switch k := rnd.Intn(8); {
	case k <= 2:
		r.V, r.Repr, r.Lit = txt, "string", Quote(txt)
	case k <= 4:
		d, _, _ := apd.NewFromString(txt)
		r.V, r.Repr, r.Lit = d, "decimal", txt
	case k == 5 && isIntegral && ni <= 18:
		i, _ := strconv.ParseInt(txt, 10, 64)
		r.V, r.Repr, r.Lit = i, "int64", txt
	case k == 6 && ni+nf <= 15:
		f, _ := strconv.ParseFloat(txt, 64)
		r.V, r.Repr = f, "float64"
		// a double is not a decimal: the exactness verdict is reserved for same-kind inputs
		if r.Accept > 0 {
			r.Accept, r.Exact = 0, false
		}
	case k == 7:
		r.V, r.Repr, r.Lit = []byte(txt), "bytes", ""
	default:
		r.V, r.Repr, r.Lit = txt, "string", Quote(txt)
	}
	return r
}

// ---------------------------------------------------------------- character strings

var alphabets = map[string][]string{
	"ascii":  {"a", "A", "b", "B", "e", "E", "s", "S", "z", "Z", "0", "1", "9", " ", "_", "-", "'", "\\", "%", "\t"},
	"latin1": {"a", "A", "á", "Á", "ä", "b", "B", "e", "E", "é", "É", "s", "ß", "S", "z", "0", "9", " ", "'", "\\", "ÿ", "ñ"},
	"bmp":    {"a", "A", "á", "Á", "ä", "b", "B", "e", "E", "é", "É", "s", "ß", "S", "z", "0", "9", " ", "'", "\\", "ÿ", "ñ", "Ω", "ω", "я", "Я", "中", "ı", "İ", " ", "é"},
	"full":   {"a", "A", "á", "Á", "ä", "b", "B", "e", "E", "é", "É", "s", "ß", "S", "z", "0", "9", " ", "'", "\\", "ÿ", "ñ", "Ω", "ω", "я", "Я", "中", "ı", "İ", " ", "é", "😀", "𝔘", "\"", "\n", "\x00"},
}

func randText(rnd *rand.Rand, alpha string, n int) string {
	a := alphabets[alpha]
	var b strings.Builder
	small := rnd.Intn(2) == 0 // a tiny sub-alphabet makes equal and prefix-related strings likely
	for i := 0; i < n; i++ {
		if small {
			b.WriteString(a[rnd.Intn(6)])
		} else {
			b.WriteString(a[rnd.Intn(len(a))])
		}
	}
	return b.String()
}

func genChar(s *Spec, rnd *rand.Rand) Raw {
	limit := s.Len
	byBytes := s.Base == "tinytext"
	measure := func(t string) int {
		if byBytes {
			return len(t)
		}
		return utf8.RuneCountInString(t)
	}
	var txt string
	class := "in-range"
	switch rnd.Intn(12) {
	case 0:
		txt, class = "", "empty"
	case 1: // exactly at the limit
		for measure(txt) < limit {
			txt += randText(rnd, s.Alphabet, 1)
		}
		for measure(txt) > limit {
			_, sz := utf8.DecodeLastRuneInString(txt)
			txt = txt[:len(txt)-sz]
		}
		class = "at-limit"
	case 2: // over the limit
		for measure(txt) <= limit {
			txt += randText(rnd, s.Alphabet, 1+rnd.Intn(3))
		}
		if strings.TrimRight(txt, " ") != txt {
			txt += "x"
		}
		class = "over-long"
		if len(txt) != utf8.RuneCountInString(txt) {
			class = "over-long-multibyte"
		}
	case 3:
		bad := []string{"\xff", "a\xc3", "\xf0\x9f\x98", "ab\xfe"}
		txt, class = bad[rnd.Intn(len(bad))], "invalid-utf8"
	default:
		n := rnd.Intn(limit + 1)
		if n > 12 {
			n = rnd.Intn(12)
		}
		txt = randText(rnd, s.Alphabet, n)
		for measure(txt) > limit {
			_, sz := utf8.DecodeLastRuneInString(txt)
			txt = txt[:len(txt)-sz]
		}
	}
	r := Raw{Class: class, Lit: Quote(txt)}
	switch class {
	case "over-long", "over-long-multibyte":
		r.Accept = -1
	case "invalid-utf8":
		r.Accept, r.Lit = -1, ""
		if s.Coll.CharacterSet().Name() != "utf8mb4" {
			// bytes handed to a column of another character set are read in that character set (every byte
			// string is valid latin1): not judged
			r.Accept = 0
		}
	default:
		r.Exact, r.Accept, r.Want = true, +1, txt
		if strings.HasSuffix(txt, " ") {
			// trailing spaces: CHAR strips them on retrieval, PAD SPACE collations ignore them in comparisons
			r.Accept, r.Class = 0, "trailing-space"
			if s.Base == "char" {
				r.Exact = false
			}
		}
	}
	if rnd.Intn(4) == 0 {
		r.V, r.Repr = []byte(txt), "bytes"
	} else {
		r.V, r.Repr = txt, "string"
	}
	if class == "in-range" && rnd.Intn(15) == 0 {
		// a number presented to a character column denotes its decimal text
		i := int64(rnd.Intn(2000) - 1000)
		t := strconv.FormatInt(i, 10)
		if measure(t) <= limit {
			return Raw{V: i, Repr: "int64", Class: "number-as-text", Exact: true, Accept: +1, Want: t, Lit: t}
		}
	}
	return r
}

// ---------------------------------------------------------------- binary strings

func genBinary(s *Spec, rnd *rand.Rand) Raw {
	limit := s.Len
	n := rnd.Intn(10)
	class := "in-range"
	switch rnd.Intn(10) {
	case 0:
		n, class = 0, "empty"
	case 1:
		n, class = limit, "at-limit"
		if limit > 300 {
			n, class = 300, "long"
		}
	case 2:
		if limit <= 255 {
			n, class = limit+1+rnd.Intn(3), "over-long"
		}
	}
	if class == "in-range" && n > limit {
		n = limit
	}
	b := make([]byte, n)
	for i := range b {
		switch rnd.Intn(4) {
		case 0:
			b[i] = 0
		case 1:
			b[i] = 0xff
		case 2:
			b[i] = byte('a' + rnd.Intn(3))
		default:
			b[i] = byte(rnd.Intn(256))
		}
	}
	r := Raw{Class: class, Lit: HexLit(b)}
	if n == 0 {
		r.Lit = "''"
	}
	switch class {
	case "over-long":
		r.Accept = -1
	default:
		want := append([]byte{}, b...)
		if s.Base == "binary" && n < limit {
			want = append(want, make([]byte, limit-n)...)
			r.Class = "padded"
		}
		r.Exact = len(want) == n
		r.Accept, r.Want = +1, want
	}
	if rnd.Intn(3) == 0 {
		r.V, r.Repr = string(b), "string"
	} else {
		r.V, r.Repr = b, "bytes"
	}
	return r
}

// ---------------------------------------------------------------- DATE / DATETIME / TIMESTAMP

var yearsPool = []int{1000, 1001, 1582, 1899, 1900, 1969, 1970, 1971, 1999, 2000, 2001, 2024, 2037, 2038, 2039, 2155, 9998, 9999}

func daysIn(y, m int) int {
	return time.Date(y, time.Month(m)+1, 0, 0, 0, 0, 0, time.UTC).Day()
}

func genDatetime(s *Spec, rnd *rand.Rand) Raw {
	if rnd.Intn(12) == 0 {
		return junkTemporal(s, rnd)
	}
	y := yearsPool[rnd.Intn(len(yearsPool))]
	if rnd.Intn(3) == 0 {
		y = 1000 + rnd.Intn(9000)
	}
	class := "in-range"
	if rnd.Intn(14) == 0 {
		y, class = []int{0, 1, 99, 100, 999}[rnd.Intn(5)], "year-below-1000"
	}
	m := 1 + rnd.Intn(12)
	d := 1 + rnd.Intn(daysIn(y, m))
	if rnd.Intn(6) == 0 {
		d = daysIn(y, m)
	}
	hh, mi, ss := rnd.Intn(24), rnd.Intn(60), rnd.Intn(60)
	if rnd.Intn(5) == 0 {
		hh, mi, ss = 23, 59, 59
	}
	if rnd.Intn(5) == 0 {
		hh, mi, ss = 0, 0, 0
	}
	nfrac := rnd.Intn(7) // fractional digits written
	if rnd.Intn(8) == 0 {
		nfrac = 7 + rnd.Intn(3)
	}
	frac := digits(rnd, nfrac, false)
	if rnd.Intn(6) == 0 {
		frac = strings.Repeat("9", nfrac)
	}
	if s.Kind == "timestamp" && rnd.Intn(5) == 0 {
		// the edges of the TIMESTAMP range
		switch rnd.Intn(4) {
		case 0:
			y, m, d, hh, mi, ss, frac, nfrac = 1970, 1, 1, 0, 0, 1, "", 0
		case 1:
			y, m, d, hh, mi, ss, frac, nfrac = 1970, 1, 1, 0, 0, 0, "", 0
		case 2:
			y, m, d, hh, mi, ss, frac, nfrac = 2038, 1, 19, 3, 14, 7, "", 0
		case 3:
			y, m, d, hh, mi, ss, frac, nfrac = 2038, 1, 19, 3, 14, 8, "", 0
		}
	}
	nanos := 0
	if nfrac > 0 {
		f9 := (frac + "000000000")[:9]
		nanos, _ = strconv.Atoi(f9)
	}
	dateOnly := rnd.Intn(4) == 0
	if s.Kind == "date" {
		dateOnly = rnd.Intn(4) != 0
	}
	if dateOnly {
		hh, mi, ss, nanos, nfrac, frac = 0, 0, 0, 0, 0, ""
	}
	tv := time.Date(y, time.Month(m), d, hh, mi, ss, nanos, time.UTC)
	txt := fmt.Sprintf("%04d-%02d-%02d", y, m, d)
	if !dateOnly {
		txt += fmt.Sprintf(" %02d:%02d:%02d", hh, mi, ss)
		if nfrac > 0 {
			txt += "." + frac
		}
	}
	r := Raw{Class: class, Lit: Quote(txt)}
	// reference judgement
	trimmedFrac := len(strings.TrimRight(frac, "0"))
	switch {
	case class == "year-below-1000":
		// MySQL documents 1000..9999 as the supported range; smaller years "may work": not judged
	case s.Kind == "date":
		if hh == 0 && mi == 0 && ss == 0 && nanos == 0 {
			r.Exact, r.Accept, r.Want = true, +1, tv
		} else {
			r.Class = "time-part-dropped"
		}
	case trimmedFrac > s.FracPrec:
		r.Class = "excess-fraction"
	default:
		r.Exact, r.Accept, r.Want = true, +1, tv
	}
	if s.Kind == "timestamp" && class != "year-below-1000" {
		lo := time.Unix(1, 0).UTC()
		hi := time.Unix(math.MaxInt32, 999999000).UTC()
		rounded := tv.Round(time.Second / time.Duration(pow10(s.FracPrec)))
		switch {
		case rounded.Before(lo) || rounded.After(hi):
			if tv.Before(lo.Add(-time.Second)) || tv.After(hi.Add(time.Second)) {
				r.Exact, r.Accept, r.Want, r.Class = false, -1, nil, "outside-timestamp-range"
			} else {
				r.Exact, r.Accept, r.Want, r.Class = false, 0, nil, "timestamp-edge"
			}
		}
	}
	switch rnd.Intn(5) {
	case 0, 1:
		r.V, r.Repr = tv, "time"
	case 2:
		r.V, r.Repr = []byte(txt), "bytes"
	default:
		r.V, r.Repr = txt, "string"
	}
	return r
}

func pow10(n int) int {
	p := 1
	for i := 0; i < n; i++ {
		p *= 10
	}
	return p
}

func junkTemporal(s *Spec, rnd *rand.Rand) Raw {
	type j struct {
		v      any
		repr   string
		class  string
		accept int
	}
	js := []j{
		{"2021-02-30", "string", "invalid-calendar-day", -1},
		{"2023-02-29 10:00:00", "string", "invalid-calendar-day", -1},
		{"2021-13-01", "string", "invalid-month", -1},
		{"2021-00-10", "string", "zero-in-date", 0},
		{"2021-02-28 25:00:00", "string", "invalid-clock", -1},
		{"2021-02-28 12:60:00", "string", "invalid-clock", -1},
		{"abc", "string", "malformed-alpha", -1},
		{"", "string", "empty-string", 0},
		{"0000-00-00", "string", "zero-date", 0},
		{"0000-00-00 00:00:00", "string", "zero-date", 0},
		{"10000-01-01", "string", "year-above-9999", -1},
		{time.Date(10000, 1, 1, 0, 0, 0, 0, time.UTC), "time", "year-above-9999", -1},
		{time.Date(-5, 1, 1, 0, 0, 0, 0, time.UTC), "time", "negative-year", -1},
		{int64(0), "int64", "zero-number", 0},
		{int64(20210228), "int64", "number-as-date", 0},
		{"20210228", "string", "compact-date", 0},
		{"2021-2-8", "string", "short-fields", 0},
		{"2021-02-28T10:11:12", "string", "iso-T", 0},
	}
	p := js[rnd.Intn(len(js))]
	r := Raw{V: p.v, Repr: p.repr, Class: p.class, Accept: p.accept}
	if str, ok := p.v.(string); ok {
		r.Lit = Quote(str)
	}
	return r
}

// ---------------------------------------------------------------- TIME

const maxTimeMicros = int64(838*3600+59*60+59) * 1000000

func genTime(s *Spec, rnd *rand.Rand) Raw {
	if rnd.Intn(10) == 0 {
		type j struct {
			v      any
			repr   string
			class  string
			accept int
		}
		js := []j{
			{"839:00:00", "string", "above-838:59:59", -1},
			{"-900:00:00", "string", "above-838:59:59", -1},
			{"12:60:00", "string", "invalid-clock", -1},
			{"12:00:61", "string", "invalid-clock", -1},
			{"abc", "string", "malformed-alpha", -1},
			{"", "string", "empty-string", 0},
			{int64(126000), "int64", "invalid-clock-number", -1},
			{int64(75), "int64", "invalid-clock-number", -1},
			{int64(123456), "int64", "number-hhmmss", 0},
			{int64(59), "int64", "number-hhmmss", 0},
			{"123456", "string", "compact-hhmmss", 0},
			{"12:34", "string", "hh:mm", 0},
			{time.Duration(90) * time.Minute, "duration", "duration", 0},
			{12.5, "float64", "number-hhmmss", 0},
		}
		p := js[rnd.Intn(len(js))]
		r := Raw{V: p.v, Repr: p.repr, Class: p.class, Accept: p.accept}
		if str, ok := p.v.(string); ok {
			r.Lit = Quote(str)
		} else if i, ok := p.v.(int64); ok {
			r.Lit = strconv.FormatInt(i, 10)
		}
		return r
	}
	var us int64
	switch rnd.Intn(8) {
	case 0:
		us = maxTimeMicros
	case 1:
		us = -maxTimeMicros
	case 2:
		us = 0
	case 3:
		us = int64(rnd.Intn(5)) * 1000000
	case 4:
		us = rnd.Int63n(86400) * 1000000
	case 5:
		us = rnd.Int63n(maxTimeMicros)
	default:
		us = rnd.Int63n(maxTimeMicros/1000000)*1000000 + int64(rnd.Intn(1000000))
		if us > maxTimeMicros {
			us = maxTimeMicros
		}
	}
	if rnd.Intn(3) == 0 {
		us = -us
	}
	ts := types.Timespan(us)
	a := us
	if a < 0 {
		a = -a
	}
	txt := fmt.Sprintf("%02d:%02d:%02d", a/3600000000, (a/60000000)%60, (a/1000000)%60)
	if f := a % 1000000; f != 0 || rnd.Intn(4) == 0 {
		txt += fmt.Sprintf(".%06d", f)
	}
	if us < 0 {
		txt = "-" + txt
	}
	r := Raw{Class: "in-range", Exact: true, Accept: +1, Want: ts, Lit: Quote(txt)}
	switch {
	case a == maxTimeMicros:
		r.Class = "boundary"
	case a >= 86400*1000000:
		r.Class = "beyond-24h"
	}
	if us < 0 {
		r.Class += "-negative"
	}
	switch rnd.Intn(4) {
	case 0:
		r.V, r.Repr = ts, "timespan"
	default:
		r.V, r.Repr = txt, "string"
	}
	return r
}

// ---------------------------------------------------------------- YEAR

func genYear(s *Spec, rnd *rand.Rand) Raw {
	var y int
	switch rnd.Intn(10) {
	case 0:
		y = 0
	case 1:
		y = 1901
	case 2:
		y = 2155
	case 3:
		y = []int{1900, 2156, -1, 10000, 100, 1000}[rnd.Intn(6)]
	case 4:
		y = rnd.Intn(100)
	default:
		y = 1901 + rnd.Intn(255)
	}
	if rnd.Intn(15) == 0 {
		type j struct {
			v      any
			repr   string
			class  string
			accept int
		}
		js := []j{{"abc", "string", "malformed-alpha", -1}, {"", "string", "empty-string", 0}, {"0", "string", "string-zero", 0},
			{"00", "string", "string-zero", 0}, {"0000", "string", "string-zero", 0}, {"20201", "string", "malformed-length", -1},
			{time.Date(2020, 5, 5, 0, 0, 0, 0, time.UTC), "time", "time-value", 0}, {2020.7, "float64", "fraction", 0}}
		p := js[rnd.Intn(len(js))]
		r := Raw{V: p.v, Repr: p.repr, Class: p.class, Accept: p.accept}
		if str, ok := p.v.(string); ok {
			r.Lit = Quote(str)
		}
		return r
	}
	r := Raw{}
	switch {
	case y == 0 || (y >= 1901 && y <= 2155):
		r.Class, r.Exact, r.Accept, r.Want = "in-range", true, +1, int16(y)
		if y == 0 || y == 1901 || y == 2155 {
			r.Class = "boundary"
		}
	case y >= 1 && y <= 99:
		r.Class = "two-digit"
	default:
		r.Class, r.Accept = "out-of-range", -1
	}
	switch rnd.Intn(4) {
	case 0:
		r.V, r.Repr, r.Lit = int64(y), "int64", strconv.Itoa(y)
	case 1:
		if y >= 0 && y < 32768 {
			r.V, r.Repr, r.Lit = int16(y), "int16", strconv.Itoa(y)
		} else {
			r.V, r.Repr, r.Lit = int64(y), "int64", strconv.Itoa(y)
		}
	case 2:
		txt := strconv.Itoa(y)
		r.V, r.Repr, r.Lit = txt, "string", Quote(txt)
		if y == 0 { // the string '0' means 2000 (documented), the number 0 means 0000
			r.Class, r.Exact, r.Accept, r.Want = "string-zero", false, 0, nil
		}
		if len(txt) == 3 {
			r.Accept = -1
		}
	default:
		r.V, r.Repr, r.Lit = uint64(uint16(y)), "uint64", strconv.Itoa(int(uint16(y)))
		if y < 0 {
			r.V, r.Repr, r.Lit = int64(y), "int64", strconv.Itoa(y)
		}
	}
	return r
}

// ---------------------------------------------------------------- ENUM / SET

func caseVariant(rnd *rand.Rand, m string) string {
	switch rnd.Intn(3) {
	case 0:
		return strings.ToUpper(m)
	case 1:
		return strings.ToLower(m)
	}
	return m
}

func isCI(c sql.CollationID) bool { return strings.HasSuffix(c.Name(), "_ci") }

func genEnum(s *Spec, rnd *rand.Rand) Raw {
	n := len(s.Members)
	numeric := s.Members[0] == "0"
	switch rnd.Intn(10) {
	case 0:
		bad := []string{"zzz", "", "a,b", "ab"}
		txt := bad[rnd.Intn(len(bad))]
		return Raw{V: txt, Repr: "string", Class: "not-a-member", Accept: -1, Lit: Quote(txt)}
	case 1:
		idx := []int64{0, int64(n + 1), -1, 70000}[rnd.Intn(4)]
		r := Raw{V: idx, Repr: "int64", Class: "index-out-of-range", Accept: -1, Lit: strconv.FormatInt(idx, 10)}
		if idx == 0 {
			r.Class = "index-zero"
		}
		return r
	case 2:
		// a numeric string that is not a member is read as an index (MySQL does the same): not judged
		txt := strconv.Itoa(1 + rnd.Intn(n))
		r := Raw{V: txt, Repr: "string", Class: "index-as-text", Lit: Quote(txt)}
		if numeric {
			r.Class = "numeric-looking-member"
		}
		return r
	}
	i := rnd.Intn(n)
	idx := uint16(i + 1)
	r := Raw{Class: "member", Exact: true, Accept: +1, Want: idx}
	switch rnd.Intn(5) {
	case 0:
		r.V, r.Repr, r.Lit = idx, "uint16", strconv.Itoa(int(idx))
		r.Class = "index"
	case 1:
		r.V, r.Repr, r.Lit = int64(idx), "int64", strconv.Itoa(int(idx))
		r.Class = "index"
	case 2:
		m := s.Members[i]
		if isCI(s.Coll) {
			m = caseVariant(rnd, m)
			r.Class = "member-case-variant"
		}
		r.V, r.Repr, r.Lit = []byte(m), "bytes", Quote(m)
	default:
		m := s.Members[i]
		if isCI(s.Coll) && rnd.Intn(2) == 0 {
			m = caseVariant(rnd, m)
			r.Class = "member-case-variant"
		}
		r.V, r.Repr, r.Lit = m, "string", Quote(m)
	}
	return r
}

func genSet(s *Spec, rnd *rand.Rand) Raw {
	n := len(s.Members)
	hasEmpty := s.Members[0] == ""
	all := uint64(math.MaxUint64)
	if n < 64 {
		all = 1<<uint(n) - 1
	}
	switch rnd.Intn(12) {
	case 0:
		txt := []string{"zzz", "a,zzz", "a;b"}[rnd.Intn(3)]
		return Raw{V: txt, Repr: "string", Class: "not-a-member", Accept: -1, Lit: Quote(txt)}
	case 1:
		if n < 64 {
			v := all + 1 + uint64(rnd.Intn(3))
			return Raw{V: v, Repr: "uint64", Class: "bits-out-of-range", Accept: -1, Lit: strconv.FormatUint(v, 10)}
		}
	case 2:
		return Raw{V: int64(-1), Repr: "int64", Class: "negative-bits", Accept: 0, Lit: "-1"}
	}
	var bits uint64
	switch rnd.Intn(5) {
	case 0:
		bits = 0
	case 1:
		bits = all
	case 2:
		bits = 1 << uint(rnd.Intn(n))
	default:
		bits = rnd.Uint64() & all
		if n > 8 && rnd.Intn(2) == 0 {
			bits &= rnd.Uint64()
		}
	}
	var parts []string
	for i := 0; i < n; i++ {
		if bits&(1<<uint(i)) != 0 {
			parts = append(parts, s.Members[i])
		}
	}
	r := Raw{Class: "members", Exact: true, Accept: +1, Want: bits}
	if bits == 0 {
		r.Class = "empty-set"
	}
	if bits == all {
		r.Class = "all-members"
	}
	switch rnd.Intn(4) {
	case 0:
		r.V, r.Repr, r.Lit = bits, "uint64", strconv.FormatUint(bits, 10)
	case 1:
		if bits <= math.MaxInt64 {
			r.V, r.Repr, r.Lit = int64(bits), "int64", strconv.FormatUint(bits, 10)
			break
		}
		fallthrough
	default:
		// textual form, members in a random order, sometimes repeated, case-varied under _ci collations
		ps := append([]string{}, parts...)
		rnd.Shuffle(len(ps), func(i, j int) { ps[i], ps[j] = ps[j], ps[i] })
		if len(ps) > 0 && rnd.Intn(5) == 0 {
			ps = append(ps, ps[0])
			r.Class = "members-repeated"
		}
		if isCI(s.Coll) {
			for i := range ps {
				ps[i] = caseVariant(rnd, ps[i])
			}
		}
		txt := strings.Join(ps, ",")
		r.V, r.Repr, r.Lit = txt, "string", Quote(txt)
		if hasEmpty {
			// with '' as a member the text of a set no longer determines its bits ('' is both "no member" and "the
			// member ''"): not judged, and not Exact
			r.Exact, r.Accept, r.Want, r.Class = false, 0, nil, "text-with-empty-member"
		}
	}
	return r
}

// ---------------------------------------------------------------- BIT

func genBit(s *Spec, rnd *rand.Rand) Raw {
	n := s.NBits
	max := uint64(math.MaxUint64)
	if n < 64 {
		max = 1<<uint(n) - 1
	}
	var v uint64
	switch rnd.Intn(8) {
	case 0:
		v = 0
	case 1:
		v = max
	case 2:
		v = 1
	case 3:
		if n < 64 {
			v = max + 1 + uint64(rnd.Intn(3))
		} else {
			v = max
		}
	case 4:
		v = rnd.Uint64() // mostly out of range for narrow types
	default:
		v = rnd.Uint64() & max
	}
	r := Raw{Class: "in-range"}
	if v > max {
		r.Class, r.Accept = "above-max", -1
	} else {
		r.Exact, r.Accept, r.Want = true, +1, v
		if v == max || v == 0 {
			r.Class = "boundary"
		}
	}
	switch rnd.Intn(6) {
	case 0:
		if v <= math.MaxInt64 {
			r.V, r.Repr, r.Lit = int64(v), "int64", strconv.FormatUint(v, 10)
			break
		}
		fallthrough
	case 1, 2:
		r.V, r.Repr, r.Lit = v, "uint64", strconv.FormatUint(v, 10)
	case 3:
		// big-endian bytes, minimal or full width
		b := []byte{}
		for x := v; x > 0; x >>= 8 {
			b = append([]byte{byte(x)}, b...)
		}
		if rnd.Intn(2) == 0 {
			b = append(make([]byte, 8-len(b)), b...)
		}
		r.V, r.Repr, r.Lit = b, "bytes", HexLit(b)
		if len(b) == 0 {
			r.Lit = "''"
		}
	case 4:
		if rnd.Intn(3) == 0 {
			b := make([]byte, 9)
			b[0] = 1
			return Raw{V: b, Repr: "bytes", Class: "more-than-8-bytes", Accept: -1, Lit: HexLit(b)}
		}
		if rnd.Intn(2) == 0 {
			return Raw{V: int64(-1), Repr: "int64", Class: "negative", Accept: 0, Lit: "-1"}
		}
		r.V, r.Repr, r.Lit = v, "uint64", "b'"+strconv.FormatUint(v, 2)+"'"
	default:
		if v < 1<<53 {
			r.V, r.Repr = float64(v), "float64"
			r.Exact = r.Accept > 0
		} else {
			r.V, r.Repr, r.Lit = v, "uint64", strconv.FormatUint(v, 10)
		}
	}
	return r
}

// ---------------------------------------------------------------- JSON

var jsonStrings = []string{"", "a", "A", "b", "ab", "é", "😀", "a\"b", "a\\b", "line\nbreak", "\u0000", "tab\t", "</script>", "中", "null", "1"}
var jsonKeys = []string{"a", "b", "A", "aa", "", "k\"q", "é", "10", "2"}

// JSONTree builds a random JSON value out of the Go types the engine uses inside documents.
// native=true also uses int64/uint64 for small integers (what CAST(int AS JSON) produces); native=false sticks to
// what parsing JSON text produces (float64 below 2^53, int64/uint64 above).
func JSONTree(rnd *rand.Rand, depth int, native bool) any {
	k := rnd.Intn(12)
	if depth <= 0 && k >= 9 {
		k = rnd.Intn(9)
	}
	switch k {
	case 0:
		return nil
	case 1:
		return rnd.Intn(2) == 0
	case 2, 3:
		small := float64(rnd.Intn(7) - 3)
		if native {
			switch rnd.Intn(3) {
			case 0:
				return int64(small)
			case 1:
				if small >= 0 {
					return uint64(small)
				}
			}
		}
		return small
	case 4:
		big := []any{int64(9007199254740993), int64(-9007199254740993), int64(math.MaxInt64), int64(math.MinInt64), uint64(math.MaxUint64),
			uint64(9223372036854775808), int64(9007199254740992), float64(9007199254740992), float64(9.223372036854775807e18)}
		return big[rnd.Intn(len(big))]
	case 5:
		fl := []float64{0.5, -0.5, 1e30, -1e30, 1e-7, 1.5, 2.5, 1e19, 1.8446744073709552e19, 3.14, 1e300}
		return fl[rnd.Intn(len(fl))]
	case 6, 7, 8:
		return jsonStrings[rnd.Intn(len(jsonStrings))]
	case 9, 10:
		n := rnd.Intn(4)
		arr := make([]any, n)
		for i := range arr {
			arr[i] = JSONTree(rnd, depth-1, native)
		}
		return arr
	default:
		n := rnd.Intn(4)
		obj := map[string]any{}
		for i := 0; i < n; i++ {
			obj[jsonKeys[rnd.Intn(len(jsonKeys))]] = JSONTree(rnd, depth-1, native)
		}
		return obj
	}
}

func genJSON(s *Spec, rnd *rand.Rand) Raw {
	if rnd.Intn(10) == 0 {
		bad := []string{"{", "[1,", "abc", "", "{'a':1}", "1 2", "[1,]", "{\"a\"}", "\"unterminated", "01"}
		txt := bad[rnd.Intn(len(bad))]
		return Raw{V: txt, Repr: "string", Class: "invalid-json-text", Accept: -1, Lit: Quote(txt)}
	}
	native := rnd.Intn(3) == 0
	tree := JSONTree(rnd, 3, native)
	doc := types.JSONDocument{Val: tree}
	r := Raw{V: doc, Repr: "json", Class: "document:" + jsonKind(tree), Exact: true, Accept: +1, Want: doc}
	if native {
		r.Class = "document-native-ints:" + jsonKind(tree)
	}
	txt, err := types.JsonToMySqlString(context.Background(), doc)
	if err == nil {
		r.Lit = Quote(txt)
		if rnd.Intn(3) == 0 {
			// the document as JSON text: must be accepted; which Go number types the parser picks is not judged
			return Raw{V: txt, Repr: "string", Class: "json-text:" + jsonKind(tree), Accept: +1, Lit: Quote(txt)}
		}
	}
	return r
}

func jsonKind(v any) string {
	switch v.(type) {
	case nil:
		return "null"
	case bool:
		return "bool"
	case string:
		return "string"
	case []any:
		return "array"
	case map[string]any:
		return "object"
	}
	return "number"
}

// ---------------------------------------------------------------- reference order and equality of stored values

func bigOf(v any) (*big.Float, bool) {
	f := new(big.Float).SetPrec(300)
	switch x := v.(type) {
	case int8:
		return f.SetInt64(int64(x)), true
	case int16:
		return f.SetInt64(int64(x)), true
	case int32:
		return f.SetInt64(int64(x)), true
	case int64:
		return f.SetInt64(x), true
	case int:
		return f.SetInt64(int64(x)), true
	case uint8:
		return f.SetUint64(uint64(x)), true
	case uint16:
		return f.SetUint64(uint64(x)), true
	case uint32:
		return f.SetUint64(uint64(x)), true
	case uint64:
		return f.SetUint64(x), true
	case uint:
		return f.SetUint64(uint64(x)), true
	case float32:
		return f.SetFloat64(float64(x)), true
	case float64:
		return f.SetFloat64(x), true
	case types.Timespan:
		return f.SetInt64(int64(x)), true
	}
	return nil, false
}

func ratOf(v any) (*big.Rat, bool) {
	switch x := v.(type) {
	case *apd.Decimal:
		if x.Form != apd.Finite {
			return nil, false
		}
		return new(big.Rat).SetString(x.Text('f'))
	case float32:
		r := new(big.Rat).SetFloat64(float64(x))
		return r, r != nil
	case float64:
		r := new(big.Rat).SetFloat64(x)
		return r, r != nil
	}
	if f, ok := bigOf(v); ok && f != nil {
		r, _ := f.Rat(nil)
		return r, true
	}
	return nil, false
}

// RefCompare is the natural order of two stored values of a kind, where there is one that is beyond doubt
// (numbers numerically, instants chronologically, binary strings bytewise, ENUM by index, SET and BIT by bit value).
// ok=false for kinds whose order depends on a collation or on JSON comparison rules.
func RefCompare(kind string, a, b any) (int, bool) {
	switch kind {
	case "int", "float", "decimal", "time", "year", "bit", "enum", "set":
		x, ok1 := ratOf(a)
		y, ok2 := ratOf(b)
		if !ok1 || !ok2 {
			return 0, false
		}
		return x.Cmp(y), true
	case "date", "datetime", "timestamp":
		x, ok1 := a.(time.Time)
		y, ok2 := b.(time.Time)
		if !ok1 || !ok2 {
			return 0, false
		}
		return x.Compare(y), true
	case "binary":
		x, ok1 := a.([]byte)
		y, ok2 := b.([]byte)
		if !ok1 || !ok2 {
			return 0, false
		}
		return strings.Compare(string(x), string(y)), true
	}
	return 0, false
}

// SameStored says whether two stored Go values of a kind are the same value in the same stored form.
func SameStored(kind string, a, b any) bool {
	a, _ = sql.UnwrapAny(context.Background(), a)
	b, _ = sql.UnwrapAny(context.Background(), b)
	if a == nil || b == nil {
		return a == nil && b == nil
	}
	switch kind {
	case "decimal":
		x, ok1 := a.(*apd.Decimal)
		y, ok2 := b.(*apd.Decimal)
		return ok1 && ok2 && x.Form == apd.Finite && y.Form == apd.Finite && x.Cmp(y) == 0
	case "float":
		switch x := a.(type) {
		case float32:
			y, ok := b.(float32)
			return ok && x == y
		case float64:
			y, ok := b.(float64)
			return ok && x == y
		}
		return false
	case "char":
		x, ok1 := a.(string)
		y, ok2 := b.(string)
		return ok1 && ok2 && x == y
	case "binary":
		x, ok1 := a.([]byte)
		y, ok2 := b.([]byte)
		return ok1 && ok2 && string(x) == string(y)
	case "date", "datetime", "timestamp":
		x, ok1 := a.(time.Time)
		y, ok2 := b.(time.Time)
		return ok1 && ok2 && x.Equal(y)
	case "json":
		x, ok1 := a.(sql.JSONWrapper)
		y, ok2 := b.(sql.JSONWrapper)
		if !ok1 || !ok2 {
			return false
		}
		xi, e1 := x.ToInterface(context.Background())
		yi, e2 := y.ToInterface(context.Background())
		if e1 != nil || e2 != nil {
			return false
		}
		xb, e1 := json.Marshal(xi)
		yb, e2 := json.Marshal(yi)
		return e1 == nil && e2 == nil && string(xb) == string(yb)
	}
	return fmt.Sprintf("%T:%v", a, a) == fmt.Sprintf("%T:%v", b, b)
}

// StoredText is an exact text of a stored value (used for idempotence: the second conversion must not change even
// the scale of a decimal).
func StoredText(kind string, v any) string {
	v, _ = sql.UnwrapAny(context.Background(), v)
	switch x := v.(type) {
	case *apd.Decimal:
		return "dec:" + x.Text('f')
	case []byte:
		return fmt.Sprintf("bytes:%x", x)
	case time.Time:
		return "time:" + x.UTC().Format("2006-01-02 15:04:05.000000000")
	case float64:
		return "f64:" + strconv.FormatFloat(x, 'g', -1, 64)
	case float32:
		return "f32:" + strconv.FormatFloat(float64(x), 'g', -1, 32)
	case sql.JSONWrapper:
		in, err := x.ToInterface(context.Background())
		if err != nil {
			return "json:?"
		}
		b, _ := json.Marshal(in)
		return "json:" + string(b)
	}
	return fmt.Sprintf("%T:%v", v, v)
}
