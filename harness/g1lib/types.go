// Package g1lib holds what the monitors of C26 (order laws), C27 (store keeps or reports) and C28
// (wire round trip) share: the catalogue of SQL types under test and typed value generators that
// produce values in every Go representation a type's Convert accepts, each tagged with what an
// independent reference says about it (exactly representable? must be accepted? must be rejected?).
package g1lib

import (
	"fmt"
	"math/big"
	"strings"

	"github.com/dolthub/vitess/go/sqltypes"
	"github.com/dolthub/vitess/go/vt/proto/query"

	"github.com/dolthub/go-mysql-server/sql"
	"github.com/dolthub/go-mysql-server/sql/types"
)

// Spec is one SQL type under test.
type Spec struct {
	Name string   // stable key, e.g. "tinyint", "decimal(5,2)", "varchar(8)/utf8mb4_0900_ai_ci"
	Kind string   // int | float | decimal | char | binary | date | datetime | timestamp | time | year | enum | set | bit | json
	T    sql.Type // the engine's type object
	DDL  string   // column type text for CREATE TABLE

	// integers
	Min, Max *big.Int
	Bits     int
	// decimal
	Prec, Scale int
	// strings / binary
	Len      int // character (CHAR/VARCHAR) or byte (BINARY/VARBINARY/TEXT/BLOB) limit
	Base     string
	Coll     sql.CollationID
	Alphabet string // ascii | latin1 | bmp | full
	// temporal
	FracPrec int
	// enum / set
	Members []string
	// bit
	NBits int
}

func bi(s string) *big.Int { v, _ := new(big.Int).SetString(s, 10); return v }

// Catalog returns every type the three monitors exercise.
func Catalog() []*Spec {
	var out []*Spec
	add := func(s *Spec) { out = append(out, s) }

	ints := []struct {
		name string
		t    sql.Type
		min  string
		max  string
		bits int
	}{
		{"tinyint", types.Int8, "-128", "127", 8},
		{"tinyint unsigned", types.Uint8, "0", "255", 8},
		{"smallint", types.Int16, "-32768", "32767", 16},
		{"smallint unsigned", types.Uint16, "0", "65535", 16},
		{"mediumint", types.Int24, "-8388608", "8388607", 24},
		{"mediumint unsigned", types.Uint24, "0", "16777215", 24},
		{"int", types.Int32, "-2147483648", "2147483647", 32},
		{"int unsigned", types.Uint32, "0", "4294967295", 32},
		{"bigint", types.Int64, "-9223372036854775808", "9223372036854775807", 64},
		{"bigint unsigned", types.Uint64, "0", "18446744073709551615", 64},
	}
	for _, it := range ints {
		add(&Spec{Name: it.name, Kind: "int", T: it.t, DDL: strings.ToUpper(it.name), Min: bi(it.min), Max: bi(it.max), Bits: it.bits})
	}
	add(&Spec{Name: "float", Kind: "float", T: types.Float32, DDL: "FLOAT", Bits: 32})
	add(&Spec{Name: "double", Kind: "float", T: types.Float64, DDL: "DOUBLE", Bits: 64})

	for _, ps := range [][2]int{{1, 0}, {3, 3}, {5, 2}, {10, 0}, {18, 9}, {30, 10}, {65, 0}, {65, 30}} {
		add(&Spec{Name: fmt.Sprintf("decimal(%d,%d)", ps[0], ps[1]), Kind: "decimal",
			T:   types.MustCreateColumnDecimalType(uint8(ps[0]), uint8(ps[1])),
			DDL: fmt.Sprintf("DECIMAL(%d,%d)", ps[0], ps[1]), Prec: ps[0], Scale: ps[1]})
	}

	colls := []struct {
		id    sql.CollationID
		alpha string
	}{
		{sql.Collation_utf8mb4_0900_bin, "full"},
		{sql.Collation_utf8mb4_0900_ai_ci, "full"},
		{sql.Collation_utf8mb4_0900_as_cs, "full"},
		{sql.Collation_utf8mb4_general_ci, "full"},
		{sql.Collation_utf8mb4_unicode_ci, "full"},
		{sql.Collation_utf8mb4_bin, "full"},
		{sql.Collation_utf8mb3_general_ci, "bmp"},
		{sql.Collation_latin1_swedish_ci, "latin1"},
		{sql.Collation_ascii_general_ci, "ascii"},
	}
	for _, c := range colls {
		cs := c.id.CharacterSet().Name()
		for _, sh := range []struct {
			base string
			qt   query.Type
			n    int
		}{{"char", sqltypes.Char, 4}, {"varchar", sqltypes.VarChar, 8}, {"varchar", sqltypes.VarChar, 40}, {"tinytext", sqltypes.Text, 255}} {
			var t sql.Type
			var ddl string
			n := sh.n
			if sh.base == "tinytext" {
				t = types.CreateTinyText(c.id)
				ddl = fmt.Sprintf("TINYTEXT CHARACTER SET %s COLLATE %s", cs, c.id.Name())
				n = 255
			} else {
				st, err := types.CreateString(sh.qt, int64(sh.n), c.id)
				if err != nil {
					panic(err)
				}
				t = st
				ddl = fmt.Sprintf("%s(%d) CHARACTER SET %s COLLATE %s", strings.ToUpper(sh.base), sh.n, cs, c.id.Name())
			}
			name := fmt.Sprintf("%s(%d)/%s", sh.base, n, c.id.Name())
			add(&Spec{Name: name, Kind: "char", T: t, DDL: ddl, Len: n, Base: sh.base, Coll: c.id, Alphabet: c.alpha})
		}
	}
	add(&Spec{Name: "binary(4)", Kind: "binary", T: types.MustCreateBinary(sqltypes.Binary, 4), DDL: "BINARY(4)", Len: 4, Base: "binary", Coll: sql.Collation_binary})
	add(&Spec{Name: "varbinary(8)", Kind: "binary", T: types.MustCreateBinary(sqltypes.VarBinary, 8), DDL: "VARBINARY(8)", Len: 8, Base: "varbinary", Coll: sql.Collation_binary})
	add(&Spec{Name: "tinyblob", Kind: "binary", T: types.TinyBlob, DDL: "TINYBLOB", Len: 255, Base: "tinyblob", Coll: sql.Collation_binary})
	add(&Spec{Name: "blob", Kind: "binary", T: types.Blob, DDL: "BLOB", Len: 65535, Base: "blob", Coll: sql.Collation_binary})

	add(&Spec{Name: "date", Kind: "date", T: types.Date, DDL: "DATE"})
	for _, p := range []int{0, 3, 6} {
		n, d := "datetime", "DATETIME"
		if p > 0 {
			n, d = fmt.Sprintf("datetime(%d)", p), fmt.Sprintf("DATETIME(%d)", p)
		}
		add(&Spec{Name: n, Kind: "datetime", T: types.MustCreateDatetimeType(sqltypes.Datetime, p), DDL: d, FracPrec: p})
	}
	for _, p := range []int{0, 6} {
		n, d := "timestamp", "TIMESTAMP"
		if p > 0 {
			n, d = fmt.Sprintf("timestamp(%d)", p), fmt.Sprintf("TIMESTAMP(%d)", p)
		}
		add(&Spec{Name: n, Kind: "timestamp", T: types.MustCreateDatetimeType(sqltypes.Timestamp, p), DDL: d, FracPrec: p})
	}
	add(&Spec{Name: "time", Kind: "time", T: types.Time, DDL: "TIME", FracPrec: 6})
	add(&Spec{Name: "year", Kind: "year", T: types.Year, DDL: "YEAR"})

	enum := func(name string, coll sql.CollationID, members ...string) {
		cp := append([]string{}, members...)
		add(&Spec{Name: name, Kind: "enum", T: types.MustCreateEnumType(cp, coll),
			DDL: "ENUM(" + quoteList(members) + ") CHARACTER SET utf8mb4 COLLATE " + coll.Name(), Members: members, Coll: coll})
	}
	enum("enum(a,b,c)", sql.Collation_utf8mb4_0900_bin, "a", "b", "c")
	enum("enum(red,Green,BLUE)/ai_ci", sql.Collation_utf8mb4_0900_ai_ci, "red", "Green", "BLUE", "été")
	enum("enum(0,1,2,10)", sql.Collation_utf8mb4_0900_bin, "0", "1", "2", "10")
	set := func(name string, coll sql.CollationID, members ...string) {
		cp := append([]string{}, members...)
		add(&Spec{Name: name, Kind: "set", T: types.MustCreateSetType(cp, coll),
			DDL: "SET(" + quoteList(members) + ") CHARACTER SET utf8mb4 COLLATE " + coll.Name(), Members: members, Coll: coll})
	}
	set("set(a,b,c,d)", sql.Collation_utf8mb4_0900_bin, "a", "b", "c", "d")
	set("set(x,Y,zed)/ai_ci", sql.Collation_utf8mb4_0900_ai_ci, "x", "Y", "zed")
	set("set(,a,b)", sql.Collation_utf8mb4_0900_bin, "", "a", "b")
	var m64 []string
	for i := 0; i < 64; i++ {
		m64 = append(m64, fmt.Sprintf("m%02d", i))
	}
	set("set(64 members)", sql.Collation_utf8mb4_0900_bin, m64...)

	for _, n := range []int{1, 7, 8, 33, 64} {
		add(&Spec{Name: fmt.Sprintf("bit(%d)", n), Kind: "bit", T: types.MustCreateBitType(uint8(n)), DDL: fmt.Sprintf("BIT(%d)", n), NBits: n})
	}
	add(&Spec{Name: "json", Kind: "json", T: types.JSON, DDL: "JSON"})
	return out
}

func quoteList(ms []string) string {
	q := make([]string, len(ms))
	for i, m := range ms {
		q[i] = Quote(m)
	}
	return strings.Join(q, ",")
}

// Quote renders a string as a MySQL single-quoted literal with backslash escapes.
func Quote(s string) string {
	var b strings.Builder
	b.WriteByte('\'')
	for i := 0; i < len(s); i++ {
		c := s[i]
		switch c {
		case '\'':
			b.WriteString(`\'`)
		case '\\':
			b.WriteString(`\\`)
		case 0:
			b.WriteString(`\0`)
		case '\n':
			b.WriteString(`\n`)
		case '\r':
			b.WriteString(`\r`)
		case 0x1a:
			b.WriteString(`\Z`)
		default:
			b.WriteByte(c)
		}
	}
	b.WriteByte('\'')
	return b.String()
}

// HexLit renders bytes as an X'..' literal.
func HexLit(b []byte) string { return fmt.Sprintf("X'%x'", b) }

// ByKind filters the catalogue.
func ByKind(cat []*Spec, kinds ...string) []*Spec {
	var out []*Spec
	for _, s := range cat {
		for _, k := range kinds {
			if s.Kind == k {
				out = append(out, s)
			}
		}
	}
	return out
}
