package g2lib

import (
	"github.com/dolthub/go-mysql-server/sql"
)

// IsUnicodeCharset reports whether every Unicode scalar value of the BMP (utf8mb3) or of all planes
// is representable and the character set's own code order is the code point order.
func IsUnicodeCharset(cs sql.CharacterSetID) bool {
	switch cs.Name() {
	case "utf8mb3", "utf8mb4", "utf16", "utf32", "utf8":
		return true
	}
	return false
}

// CodeInCharset returns the code of r inside the character set cs, as a number that orders the way
// the character set's binary collation must order ("binary collations order by code point"): the
// Unicode code point for the Unicode character sets, the encoded byte string read big-endian
// otherwise. ok=false: r is not representable in cs.
func CodeInCharset(cs sql.CharacterSetID, r rune) (code int64, ok bool) {
	if !IsScalar(r) {
		return 0, false
	}
	switch cs.Name() {
	case "utf8mb4", "utf16", "utf32":
		return int64(r), true
	case "utf8mb3", "utf8":
		return int64(r), r <= 0xFFFF
	case "binary":
		return 0, false
	}
	enc := cs.Encoder()
	if enc == nil {
		return 0, false
	}
	var b []byte
	var eok bool
	if p := Guard(func() { b, eok = enc.EncodeRune([]byte(string(r))) }); p != nil || !eok || len(b) == 0 || len(b) > 4 {
		return 0, false
	}
	for _, x := range b {
		code = code<<8 | int64(x)
	}
	return code, true
}
