// Package g2lib holds helpers shared by the monitors C29, C30, C47 and C49 (pure-API law checkers):
// a cheap panic guard that names the first frame inside the repository without formatting a full
// stack trace (the exhaustive sweeps hit a known panic millions of times), signature helpers that
// produce whitespace-free signatures (the findings files are parsed with strings.Fields), and
// iteration over Unicode scalar values.
package g2lib

import (
	"fmt"
	"runtime"
	"strings"
	"sync"

	"verif/harness/core"
)

const repoPrefix = "github.com/dolthub/go-mysql-server/"

// Panic describes a recovered panic of a guarded call.
type Panic struct {
	Value string // fmt.Sprint of the recovered value
	Site  string // package.function of the first frame inside the repository below the panic
}

// Sig is a whitespace-free signature: panic:<site>:<message with numbers and quoted text stripped>.
func (p *Panic) Sig() string {
	return "panic:" + p.Site + ":" + Dash(strings.TrimPrefix(core.StripVolatile(p.Value), "runtime error: "))
}

// Dash makes a text usable inside a signature token (no whitespace).
func Dash(s string) string {
	s = strings.Join(strings.Fields(s), "-")
	s = strings.ReplaceAll(s, "-[:]", "")
	s = strings.ReplaceAll(s, "-[::]", "")
	return s
}

var (
	siteMu    sync.RWMutex
	siteCache = map[[8]uintptr]string{}
)

// Guard runs fn and returns a description of the panic that escaped it, or nil.
func Guard(fn func()) (p *Panic) {
	defer func() {
		if rec := recover(); rec != nil {
			p = &Panic{Value: fmt.Sprint(rec), Site: panicSite()}
		}
	}()
	fn()
	return nil
}

// panicSite must be called from the deferred function that recovered.
func panicSite() string {
	var pcs [48]uintptr
	n := runtime.Callers(2, pcs[:])
	var key [8]uintptr
	copy(key[:], pcs[:n])
	siteMu.RLock()
	s, ok := siteCache[key]
	siteMu.RUnlock()
	if ok {
		return s
	}
	frames := runtime.CallersFrames(pcs[:n])
	seenPanic := false
	site := "outside-repo"
	for {
		f, more := frames.Next()
		if strings.HasPrefix(f.Function, "runtime.gopanic") || strings.HasPrefix(f.Function, "runtime.panic") || strings.HasPrefix(f.Function, "runtime.goPanic") || strings.HasPrefix(f.Function, "runtime.sigpanic") {
			seenPanic = true
		} else if seenPanic && strings.HasPrefix(f.Function, repoPrefix) {
			site = strings.TrimPrefix(f.Function, repoPrefix)
			break
		}
		if !more {
			break
		}
	}
	siteMu.Lock()
	siteCache[key] = site
	siteMu.Unlock()
	return site
}

// CorePanicSig turns a core.PanicInfo (from Sess.Exec) into the same whitespace-free signature form.
func CorePanicSig(p *core.PanicInfo) string {
	return (&Panic{Value: p.Value, Site: p.Site}).Sig()
}

// NumScalars is the number of Unicode scalar values.
const NumScalars = 0x110000 - 0x800

// Scalar maps an index 0..NumScalars-1 onto the i-th Unicode scalar value (surrogates skipped).
func Scalar(i int) rune {
	if i < 0xD800 {
		return rune(i)
	}
	return rune(i + 0x800)
}

// IsScalar reports whether r is a Unicode scalar value.
func IsScalar(r rune) bool { return r >= 0 && r <= 0x10FFFF && !(r >= 0xD800 && r <= 0xDFFF) }

// Hex renders bytes as upper-case hex (the format of SQL HEX()).
func Hex(b []byte) string { return strings.ToUpper(fmt.Sprintf("%x", b)) }
