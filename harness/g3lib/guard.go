// Package g3lib holds the small helpers shared by the monitors of group 3 (C45, C46, C48).
package g3lib

import (
	"sync/atomic"
	"time"

	"verif/harness/core"
)

// Aborted is set when a watchdog fired: the remaining cases of the run are skipped, because the
// goroutine that is still spinning cannot be killed and may consume memory without bound.
var Aborted atomic.Bool

// Guard runs body on its own goroutine under a wall-clock watchdog (a watchdog is never a verdict:
// when it fires the case is counted inconclusive and the run is cut short; the monitor's floors then
// decide whether enough was observed). A panic escaping body is recorded as a violation with the
// usual panic signature. It returns false when the body did not complete normally.
func Guard(r *core.Run, label string, i int, d time.Duration, body func()) bool {
	if Aborted.Load() {
		return false
	}
	done := make(chan *core.PanicInfo, 1)
	go func() {
		defer func() {
			if rec := recover(); rec != nil {
				done <- core.CapturePanic(rec)
				return
			}
			done <- nil
		}()
		body()
	}()
	t := time.NewTimer(d)
	defer t.Stop()
	select {
	case p := <-done:
		if p != nil {
			st := p.Stack
			if len(st) > 4000 {
				st = st[:4000]
			}
			r.Violation(p.Sig(), map[string]any{"label": label, "case": i, "seed": r.Seed, "panic": p.Value, "stack": st})
			return false
		}
		return true
	case <-t.C:
		Aborted.Store(true)
		r.Inconclusive("watchdog:" + label)
		r.Extra("watchdog_case", map[string]any{"label": label, "case": i})
		return false
	}
}
