package g3lib

import "verif/harness/core"

// Rec buffers the high-frequency bookkeeping calls of one case (Eval, Distinct, Count) and hands them
// to the Run in one go, so that millions of tiny oracle evaluations on 16 workers do not serialise
// on the Run's mutex. Violations, samples and inconclusives go straight through.
type Rec struct {
	R        *core.Run
	evals    int
	distinct map[string]struct{}
	counts   map[string]int64
}

func NewRec(r *core.Run) *Rec {
	return &Rec{R: r, distinct: map[string]struct{}{}, counts: map[string]int64{}}
}

func (c *Rec) Eval(n int)                  { c.evals += n }
func (c *Rec) Distinct(k string)           { c.distinct[k] = struct{}{} }
func (c *Rec) Count(name string, n int64)  { c.counts[name] += n }
func (c *Rec) Violation(sig string, w any) { c.R.Violation(sig, w) }
func (c *Rec) Sample(v any)                { c.R.Sample(v) }
func (c *Rec) Inconclusive(reason string)  { c.R.Inconclusive(reason) }
func (c *Rec) Quick() bool                 { return c.R.Quick() }

// Flush publishes the buffered bookkeeping and empties the buffer.
func (c *Rec) Flush() {
	if c.evals > 0 {
		c.R.Eval(c.evals)
		c.evals = 0
	}
	for k := range c.distinct {
		c.R.Distinct(k)
	}
	for k, n := range c.counts {
		if n != 0 {
			c.R.Count(k, n)
		}
	}
	c.distinct = map[string]struct{}{}
	c.counts = map[string]int64{}
}
