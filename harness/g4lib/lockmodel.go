// Package g4lib holds helpers shared by the concurrency monitors C35–C38: a logical clock for
// client-boundary histories, the sequential named-lock model checked with porcupine, the
// process-list model, race-report plumbing and small server/driver helpers.
package g4lib

import (
	"fmt"
	"sort"
	"sync/atomic"
	"time"

	"github.com/anishathalye/porcupine"
)

// Clock is the one monotonic logical clock of a history: a call stamp is taken before invoking the
// operation, a return stamp after its reply was received. No wall-clock time is involved.
type Clock struct{ n atomic.Int64 }

// Tick returns the next stamp.
func (c *Clock) Tick() int64 { return c.n.Add(1) }

// Now reads the clock without advancing it.
func (c *Clock) Now() int64 { return c.n.Load() }

// ---- named-lock model (one lock name = one partition) ----

// Lock operation kinds.
const (
	LAcquire  = "acquire"  // TryLock / Lock(timeout) / GET_LOCK: OK = acquired
	LUnlock   = "unlock"   // Unlock / RELEASE_LOCK: OK = released one level
	LRelAll   = "relall"   // per-name component of ReleaseAll / disconnect: no output
	LState    = "state"    // GetLockState / IS_USED_LOCK: Owner (0 = not held)
	LIsFree   = "isfree"   // IS_FREE_LOCK: OK = free (no owner information)
)

// LockOp is one operation on one lock name as seen at the client boundary.
type LockOp struct {
	Client int    `json:"client"`
	Sess   int64  `json:"sess"` // session id of the caller (the value the engine uses as owner)
	Kind   string `json:"kind"`
	Via    string `json:"via"` // how it was issued (try, lock0, lock2ms, lockinf, GET_LOCK(…,-1) …) — evidence only
	Name   string `json:"name"`
	Call   int64  `json:"call"`
	Ret    int64  `json:"ret"`
	OK     bool   `json:"ok"`
	Owner  int64  `json:"owner"`
}

type lockIn struct {
	kind string
	sess int64
}
type lockOut struct {
	ok    bool
	owner int64
}

// lockState is the whole sequential state of one name: existence is deliberately absent.
type lockState struct {
	owner int64
	count int64
}

// LockModel is the sequential specification of one named lock.
var LockModel = porcupine.Model{
	Init: func() interface{} { return lockState{} },
	Step: func(state, input, output interface{}) (bool, interface{}) {
		st := state.(lockState)
		in := input.(lockIn)
		out := output.(lockOut)
		switch in.kind {
		case LAcquire:
			free := st.owner == 0 || st.owner == in.sess
			if out.ok {
				if !free {
					return false, st
				}
				return true, lockState{owner: in.sess, count: st.count + 1}
			}
			return !free, st
		case LUnlock:
			mine := st.owner == in.sess && st.owner != 0
			if out.ok {
				if !mine {
					return false, st
				}
				if st.count <= 1 {
					return true, lockState{}
				}
				return true, lockState{owner: st.owner, count: st.count - 1}
			}
			return !mine, st
		case LRelAll:
			if st.owner == in.sess {
				return true, lockState{}
			}
			return true, st
		case LState:
			return st.owner == out.owner, st
		case LIsFree:
			return (st.owner == 0) == out.ok, st
		}
		return false, st
	},
	Equal: func(a, b interface{}) bool { return a.(lockState) == b.(lockState) },
	DescribeOperation: func(input, output interface{}) string {
		in := input.(lockIn)
		out := output.(lockOut)
		return fmt.Sprintf("%s(s%d)->ok=%v,owner=%d", in.kind, in.sess, out.ok, out.owner)
	},
}

// LockVerdict is the outcome of checking one history.
type LockVerdict struct {
	Illegal []string // names whose sub-history is not linearizable
	Unknown []string // names whose check timed out
	Parts   int
}

// CheckLockHistory checks the history partitioned by lock name (P-compositionality).
func CheckLockHistory(ops []LockOp, timeout time.Duration) LockVerdict {
	by := map[string][]porcupine.Operation{}
	for _, o := range ops {
		by[o.Name] = append(by[o.Name], porcupine.Operation{
			ClientId: o.Client,
			Input:    lockIn{kind: o.Kind, sess: o.Sess},
			Output:   lockOut{ok: o.OK, owner: o.Owner},
			Call:     o.Call, Return: o.Ret,
		})
	}
	names := make([]string, 0, len(by))
	for n := range by {
		names = append(names, n)
	}
	sort.Strings(names)
	var v LockVerdict
	for _, n := range names {
		v.Parts++
		switch porcupine.CheckOperationsTimeout(LockModel, by[n], timeout) {
		case porcupine.Illegal:
			v.Illegal = append(v.Illegal, n)
		case porcupine.Unknown:
			v.Unknown = append(v.Unknown, n)
		}
	}
	return v
}

// OpsOfName returns the sub-history of one name ordered by call stamp (for witnesses).
func OpsOfName(ops []LockOp, name string) []LockOp {
	var out []LockOp
	for _, o := range ops {
		if o.Name == name {
			out = append(out, o)
		}
	}
	sort.Slice(out, func(i, j int) bool { return out[i].Call < out[j].Call })
	return out
}

// Overlaps counts operations on the same name by different clients whose intervals overlap.
func Overlaps(ops []LockOp) int {
	n := 0
	for i := range ops {
		for j := i + 1; j < len(ops); j++ {
			a, b := ops[i], ops[j]
			if a.Name == b.Name && a.Client != b.Client && a.Call < b.Ret && b.Call < a.Ret {
				n++
			}
		}
	}
	return n
}
