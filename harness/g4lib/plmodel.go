package g4lib

import (
	"fmt"
	"sort"
	"strings"
	"time"

	"github.com/anishathalye/porcupine"
)

// Sequential model of sqle.ProcessList for protocol-conforming callers (Add → Ready →
// (BeginQuery→EndQuery | BeginOperation→EndOperation)* → Remove per connection; Kill, Processes and
// counter reads from anywhere; the documented error calls).

// MaxSlots is the number of connection slots a history may use.
const MaxSlots = 6

// Process-list operation kinds.
const (
	PAdd      = "add"
	PReady    = "ready"
	PBeginQ   = "beginq"
	PEndQ     = "endq"
	PBeginOp  = "beginop"
	PEndOp    = "endop"
	PKill     = "kill"
	PRemove   = "remove"
	PProcs    = "processes"
	PRunning  = "threads_running"
	PCtxErr   = "ctxerr" // the owner looks at the context its latest successful Begin* returned
	PConnRead = "threads_connected"
)

// PLOp is one recorded call.
type PLOp struct {
	Client int    `json:"client"`
	Kind   string `json:"kind"`
	Slot   int    `json:"slot"`
	Pid    uint64 `json:"pid,omitempty"`
	Query  string `json:"query,omitempty"`
	Call   int64  `json:"call"`
	Ret    int64  `json:"ret"`
	OK     bool   `json:"ok"`            // Begin*: no error; ctxerr: context cancelled
	N      int64  `json:"n,omitempty"`   // counter reads (relative to the value at the start of the history)
	Procs  string `json:"procs,omitempty"` // processes(): canonical "slot:command:query" list
}

type slotState struct {
	exists    bool
	cmd       uint8 // 0 Connect, 1 Sleep, 2 Query
	query     string
	pid       uint64
	kill      bool // a cancel func is registered (query or operation in flight)
	cancelled bool // the context returned by the latest successful Begin* has been cancelled
}

type plState struct {
	s [MaxSlots]slotState
}

var cmdNames = [...]string{"Connect", "Sleep", "Query"}

func (st plState) procs() string {
	var parts []string
	for i, s := range st.s {
		if s.exists {
			parts = append(parts, fmt.Sprintf("%d:%s:%s", i, cmdNames[s.cmd], s.query))
		}
	}
	return strings.Join(parts, ",")
}

func (st plState) running() int64 {
	var n int64
	for _, s := range st.s {
		if s.exists && s.pid != 0 {
			n++
		}
	}
	return n
}

// ProcsCanon renders an observed process list the way the model does (entries sorted by slot).
func ProcsCanon(entries map[int][2]string) string {
	slots := make([]int, 0, len(entries))
	for s := range entries {
		slots = append(slots, s)
	}
	sort.Ints(slots)
	var parts []string
	for _, s := range slots {
		parts = append(parts, fmt.Sprintf("%d:%s:%s", s, entries[s][0], entries[s][1]))
	}
	return strings.Join(parts, ",")
}

// PLModel is the whole-object sequential specification.
var PLModel = porcupine.Model{
	Init: func() interface{} { return plState{} },
	Step: func(state, input, output interface{}) (bool, interface{}) {
		st := state.(plState)
		op := input.(PLOp) // outputs travel in the same struct
		if op.Slot < 0 || op.Slot >= MaxSlots {
			return false, st
		}
		s := &st.s[op.Slot]
		switch op.Kind {
		case PAdd:
			*s = slotState{exists: true, cmd: 0, cancelled: s.cancelled}
			return true, st
		case PReady:
			c := s.cancelled
			*s = slotState{exists: true, cmd: 1, cancelled: c}
			return true, st
		case PBeginQ:
			inUse := false
			for _, o := range st.s {
				if o.exists && o.pid == op.Pid && o.pid != 0 {
					inUse = true
				}
			}
			must := s.exists && !inUse
			if op.OK != must {
				return false, st
			}
			if must {
				s.cmd, s.query, s.pid, s.kill, s.cancelled = 2, op.Query, op.Pid, true, false
			}
			return true, st
		case PEndQ:
			if s.exists && s.pid == op.Pid && s.pid != 0 {
				s.cmd, s.query, s.pid, s.kill, s.cancelled = 1, "", 0, false, true
			}
			return true, st
		case PBeginOp:
			must := s.exists && !s.kill
			if op.OK != must {
				return false, st
			}
			if must {
				s.kill, s.cancelled = true, false
			}
			return true, st
		case PEndOp:
			if s.exists && s.kill {
				s.kill, s.cancelled = false, true
			}
			return true, st
		case PKill:
			if s.exists && s.kill {
				s.cancelled = true
			}
			return true, st
		case PRemove:
			if s.exists {
				c := s.cancelled || s.kill
				*s = slotState{cancelled: c}
			}
			return true, st
		case PProcs:
			return st.procs() == op.Procs, st
		case PRunning:
			return st.running() == op.N, st
		case PCtxErr:
			return s.cancelled == op.OK, st
		}
		return false, st
	},
	Equal: func(a, b interface{}) bool { return a.(plState) == b.(plState) },
	DescribeOperation: func(input, output interface{}) string {
		op := input.(PLOp)
		return fmt.Sprintf("%s(slot %d pid %d %q) ok=%v n=%d procs=%s", op.Kind, op.Slot, op.Pid, op.Query, op.OK, op.N, op.Procs)
	},
}

// connCounterModel: Threads_connected is updated outside the process list's mutex (AddConnection
// increments before taking the lock), so it is checked as its own linearizable counter.
var connCounterModel = porcupine.Model{
	Init: func() interface{} { return int64(0) },
	Step: func(state, input, output interface{}) (bool, interface{}) {
		n := state.(int64)
		op := input.(PLOp)
		switch op.Kind {
		case PAdd:
			return true, n + 1
		case PRemove:
			if op.OK { // the connection existed (protocol: always)
				return true, n - 1
			}
			return true, n
		case PConnRead:
			return n == op.N, n
		}
		return true, n
	},
}

// CheckPLHistory checks the history against the process-list model and, separately, the
// Threads_connected counter. Returns "ok", "illegal:<which>" or "unknown".
func CheckPLHistory(ops []PLOp, timeout time.Duration) string {
	var main, cnt []porcupine.Operation
	for _, o := range ops {
		po := porcupine.Operation{ClientId: o.Client, Input: o, Output: o, Call: o.Call, Return: o.Ret}
		switch o.Kind {
		case PConnRead:
			cnt = append(cnt, po)
		case PAdd, PRemove:
			cnt = append(cnt, po)
			main = append(main, po)
		default:
			main = append(main, po)
		}
	}
	res := "ok"
	switch porcupine.CheckOperationsTimeout(PLModel, main, timeout) {
	case porcupine.Illegal:
		return "illegal:process-list"
	case porcupine.Unknown:
		res = "unknown"
	}
	switch porcupine.CheckOperationsTimeout(connCounterModel, cnt, timeout) {
	case porcupine.Illegal:
		return "illegal:threads_connected"
	case porcupine.Unknown:
		res = "unknown"
	}
	return res
}
