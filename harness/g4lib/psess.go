package g4lib

import (
	"context"
	"sync/atomic"

	"github.com/dolthub/go-mysql-server/sql"

	"verif/harness/core"
)

var pidCounter atomic.Uint64

// NextPid hands out process-unique query pids (what SessionManager.nextPid does in the server).
func NextPid() uint64 { return pidCounter.Add(1) + 1000 }

// PSess is an in-process session that is registered with the engine's ProcessList and runs every
// statement the way the server's handler does: context with pid / memory manager / process list,
// BeginQuery before, EndQuery after the rows were drained.
type PSess struct {
	*core.Sess
	Redact bool
	closed bool
}

// NewPSess opens a session and registers its connection (AddConnection + ConnectionReady).
func NewPSess(e *core.Eng) *PSess {
	s := e.NewSess()
	pl := e.E.ProcessList
	pl.AddConnection(s.ID, "127.0.0.1:1")
	pl.ConnectionReady(s.S)
	return &PSess{Sess: s}
}

// QCtx builds a statement context like SessionManager.newContextAndWatch.
func (p *PSess) QCtx(q string) *sql.Context {
	opts := []sql.ContextOption{
		sql.WithSession(p.S),
		sql.WithPid(NextPid()),
		sql.WithQuery(q),
		sql.WithMemoryManager(p.Eng.E.MemoryManager),
		sql.WithProcessList(p.Eng.E.ProcessList),
	}
	if p.Redact {
		opts = append(opts, sql.WithTraceRedaction(true))
	}
	return sql.NewContext(context.Background(), opts...)
}

// Query runs one statement bracketed by BeginQuery / EndQuery.
func (p *PSess) Query(q string) *core.Result {
	ctx := p.QCtx(q)
	pl := p.Eng.E.ProcessList
	qctx, err := pl.BeginQuery(ctx, q)
	if err != nil {
		return &core.Result{SQL: q, Err: err}
	}
	defer pl.EndQuery(qctx)
	if p.Redact {
		_ = qctx.RedactQueryForTrace(q)
	}
	return p.ExecCtx(qctx, q)
}

// Close removes the connection from the process list.
func (p *PSess) Close() {
	if !p.closed {
		p.closed = true
		p.Eng.E.ProcessList.RemoveConnection(p.ID)
	}
}

// StatusUint reads a global status variable as a number (ok=false when absent / not numeric).
func StatusUint(name string) (uint64, bool) {
	_, v, ok := sql.StatusVariables.GetGlobal(name)
	if !ok {
		return 0, false
	}
	switch x := v.(type) {
	case uint64:
		return x, true
	case int64:
		return uint64(x), true
	case int:
		return uint64(x), true
	}
	return 0, false
}
