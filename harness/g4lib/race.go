package g4lib

import (
	"strings"

	"verif/harness/core"
)

// ReportRaces turns the race detector's reports written so far into violations (deduplicated by the
// pair of first frames inside the repository). map lets a monitor rename a signature into a narrower
// known-finding signature (nil = keep). Returns the number of report blocks and distinct signatures.
func ReportRaces(r *core.Run, rename func(rep core.RaceReport) string) (blocks int, sigs []string) {
	reports, blocks := core.RaceReports()
	r.Count("race.blocks", int64(blocks))
	for _, rep := range reports {
		sig := rep.Sig
		if rename != nil {
			if s := rename(rep); s != "" {
				sig = s
			}
		}
		sigs = append(sigs, sig)
		for i := 0; i < rep.Count; i++ {
			r.Violation(sig, map[string]any{"race_signature": rep.Sig, "reports": rep.Count, "first_block": rep.Block})
		}
	}
	r.Extra("race.signatures", sigs)
	return blocks, sigs
}

// RaceEnabled reports whether the binary runs with a race log configured (i.e. through ./check with
// a RACE file); the monitors record it so that evidence shows the sanitizer was really on.
func RaceEnabled() bool { return core.RaceLogPath() != "" && raceBuild }

// BlockHas reports whether a race block mentions all the given fragments.
func BlockHas(block string, frags ...string) bool {
	for _, f := range frags {
		if !strings.Contains(block, f) {
			return false
		}
	}
	return true
}

// Sig makes a violation signature space-free (findings files are parsed with strings.Fields).
func Sig(s string) string { return strings.Join(strings.Fields(s), "_") }
