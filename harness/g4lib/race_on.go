//go:build race

package g4lib

const raceBuild = true
