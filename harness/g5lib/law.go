// Package g5lib is the law runner shared by the function-law monitors (C31–C34, C52).
//
// A Law is data: a name, and a generator that turns a PRNG into one Inst (instance): the SQL
// expressions to evaluate (one or more select-list items), the argument class (for the Distinct key
// "law|class"), the arguments (for the witness), and a Go predicate over the returned values that
// answers "" (held), a failure mode (violation with signature "<law>:<mode>"), or Skip(reason)
// (inconclusive). Many instances are batched into ONE `SELECT e1, e2, …` to amortise parsing and
// planning; when the batch fails as a whole the instances are re-run one by one so that an error
// (or panic) is attributed to exactly the instance that raises it.
package g5lib

import (
	"fmt"
	"math/rand"
	"sort"
	"strings"
	"sync"

	"verif/harness/core"
)

// ErrPolicy says what an SQL error raised by an instance (run alone) means.
type ErrPolicy int

const (
	// ErrViolates: the law's arguments are valid, so an error is a failure "<law>:error".
	ErrViolates ErrPolicy = iota
	// ErrSkips: an error is an admissible answer the law cannot judge (counted inconclusive).
	ErrSkips
	// ErrToCheck: the predicate is called with a single Val whose Err is set (laws that expect or
	// tolerate errors, e.g. invalid patterns).
	ErrToCheck
)

// Inst is one instance of a law.
type Inst struct {
	Class  string            // argument class (Distinct key is law|class)
	Exprs  []string          // select-list expressions
	Args   any               // arguments, for the witness
	Check  func([]Val) string // "" held; Skip(...) inconclusive; otherwise failure mode
	OnErr  ErrPolicy
	Single bool              // never batch (needs its own warnings / own statement)
	Setup  []string          // statements run before (forces Single); on a fresh session of the worker engine
	Trivial bool             // do not count as a distinct non-trivial observation
}

// Law is a named generator of instances. Gen may return nil (no instance for this draw).
type Law struct {
	Name   string
	Weight int // relative frequency (default 1)
	Gen    func(rnd *rand.Rand) *Inst
}

// Skip marks an inconclusive evaluation.
func Skip(reason string) string { return "\x00skip:" + reason }

func isSkip(s string) (string, bool) {
	if strings.HasPrefix(s, "\x00skip:") {
		return s[6:], true
	}
	return "", false
}

// Runner drives a catalogue of laws.
type Runner struct {
	R        *core.Run
	Laws     []Law
	Batch    int // instances per SELECT (default 40)
	Workers  int // engines in parallel (default 16)
	EngSetup []string // statements run once on every worker engine (tables used by laws)

	mu       sync.Mutex
	perLaw   map[string]int64
	heldLaw  map[string]int64
	sampled  map[string]bool
}

// NewRunner makes a runner for a catalogue.
func NewRunner(r *core.Run, laws []Law) *Runner {
	return &Runner{R: r, Laws: laws, Batch: 40, Workers: 16, perLaw: map[string]int64{}, heldLaw: map[string]int64{}, sampled: map[string]bool{}}
}

type pending struct {
	law  *Law
	inst *Inst
	off  int // offset of its first expression in the batch
}

// Run evaluates total instances under the given label: case i is batch i, whose PRNG is
// r.Rand(label, i); laws are drawn by weight, every law is drawn at least once per `len(laws)`
// consecutive draws at the start of stream 0 so that small runs still touch the whole catalogue.
func (ru *Runner) Run(label string, total int) {
	if ru.Batch <= 0 {
		ru.Batch = 40
	}
	nb := (total + ru.Batch - 1) / ru.Batch
	W := ru.Workers
	if W > nb {
		W = nb
	}
	if W < 1 {
		W = 1
	}
	// weighted table
	var table []int
	for i, l := range ru.Laws {
		w := l.Weight
		if w <= 0 {
			w = 1
		}
		for k := 0; k < w; k++ {
			table = append(table, i)
		}
	}
	// engines and sessions are created one after the other BEFORE any worker runs: engine construction writes
	// process-global status variables (variables.InitStatusVariables), which races with running queries and
	// with other constructions — a harness artefact the race-built monitors must not report
	engs := make([]*core.Eng, W)
	sess := make([]*core.Sess, W)
	for w := range engs {
		engs[w] = core.NewEng("d")
		sess[w] = engs[w].NewSess()
		for _, q := range ru.EngSetup {
			sess[w].MustExec(q)
		}
	}
	defer func() {
		for _, e := range engs {
			e.Close()
		}
	}()
	ru.R.Parallel(label, W, func(w int) {
		e, s := engs[w], sess[w]
		for b := w; b < nb; b += W {
			rnd := ru.R.Rand(label, b)
			var batch []pending
			var exprs []string
			count := ru.Batch
			if rem := total - b*ru.Batch; rem < count {
				count = rem
			}
			for k := 0; k < count; k++ {
				var li int
				if idx := b*ru.Batch + k; idx < len(ru.Laws) {
					li = idx // first pass: every law once
				} else {
					li = table[rnd.Intn(len(table))]
				}
				law := &ru.Laws[li]
				inst := law.Gen(rnd)
				for try := 0; inst == nil && try < 5; try++ {
					inst = law.Gen(rnd)
				}
				if inst == nil {
					continue
				}
				if inst.Single || len(inst.Setup) > 0 {
					ru.runSingle(e, s, law, inst)
					continue
				}
				batch = append(batch, pending{law, inst, len(exprs)})
				exprs = append(exprs, inst.Exprs...)
			}
			if len(batch) == 0 {
				continue
			}
			q := "SELECT " + strings.Join(exprs, ", ")
			res := s.Exec(q)
			if !res.Failed() && len(res.Rows) == 1 && len(res.Rows[0]) == len(exprs) {
				row := res.Rows[0]
				for _, p := range batch {
					vals := make([]Val, len(p.inst.Exprs))
					for j := range vals {
						vals[j] = Val{Raw: row[p.off+j]}
					}
					ru.judge(p.law, p.inst, vals, nil)
				}
				continue
			}
			ru.R.Count("batch-fallbacks", 1)
			for _, p := range batch {
				ru.runSingle(e, s, p.law, p.inst)
			}
		}
	})
}

func (ru *Runner) runSingle(e *core.Eng, s *core.Sess, law *Law, inst *Inst) {
	sess := s
	if len(inst.Setup) > 0 {
		sess = e.NewSess()
		for _, q := range inst.Setup {
			r0 := sess.Exec(q)
			if r0.Failed() {
				ru.R.Inconclusive(law.Name + ":setup-failed")
				return
			}
		}
	}
	q := "SELECT " + strings.Join(inst.Exprs, ", ")
	res := sess.Exec(q)
	switch {
	case res.Panic != nil:
		ru.R.Eval(1)
		ru.count(law.Name, false)
		ru.R.Violation(law.Name+":panic:"+res.Panic.Site, map[string]any{"law": law.Name, "class": inst.Class, "sql": q, "args": inst.Args, "panic": res.Panic.Value, "stack": clipStack(res.Panic.Stack)})
		return
	case res.TimedOut:
		ru.R.Inconclusive("timeout")
		return
	case res.Err != nil:
		switch inst.OnErr {
		case ErrSkips:
			ru.R.Inconclusive(law.Name + ":error")
			ru.R.Count("errors-skipped", 1)
			return
		case ErrToCheck:
			ru.judge(law, inst, []Val{{Err: res.Err, ErrClass: res.ErrClass()}}, res)
			return
		default:
			ru.R.Eval(1)
			ru.count(law.Name, false)
			ru.R.Violation(law.Name+":error", map[string]any{"law": law.Name, "class": inst.Class, "sql": q, "args": inst.Args, "error": res.Err.Error()})
			return
		}
	}
	if len(res.Rows) != 1 || len(res.Rows[0]) != len(inst.Exprs) {
		ru.R.Eval(1)
		ru.R.Violation(law.Name+":row-shape", map[string]any{"law": law.Name, "sql": q, "rows": len(res.Rows)})
		return
	}
	vals := make([]Val, len(inst.Exprs))
	for j := range vals {
		vals[j] = Val{Raw: res.Rows[0][j]}
	}
	for i := range vals {
		vals[i].Warnings = len(res.Warnings)
	}
	ru.judge(law, inst, vals, res)
}

func clipStack(s string) string {
	if len(s) > 3000 {
		return s[:3000]
	}
	return s
}

func (ru *Runner) count(law string, held bool) {
	ru.mu.Lock()
	ru.perLaw[law]++
	if held {
		ru.heldLaw[law]++
	}
	ru.mu.Unlock()
}

func (ru *Runner) judge(law *Law, inst *Inst, vals []Val, res *core.Result) {
	mode := safeCheck(inst, vals)
	if why, skip := isSkip(mode); skip {
		ru.R.Inconclusive(law.Name + ":" + why)
		return
	}
	ru.R.Eval(1)
	if mode == "" {
		ru.count(law.Name, true)
		if !inst.Trivial {
			ru.R.Distinct(law.Name + "|" + inst.Class)
		}
		ru.mu.Lock()
		first := !ru.sampled[law.Name]
		if first && len(ru.sampled) < 6 {
			ru.sampled[law.Name] = true
		} else {
			first = false
		}
		ru.mu.Unlock()
		if first {
			ru.R.Sample(map[string]any{"law": law.Name, "class": inst.Class, "sql": "SELECT " + core.Clip(strings.Join(inst.Exprs, ", "), 400), "values": canonVals(vals), "verdict": "held"})
		}
		return
	}
	ru.count(law.Name, false)
	ru.R.Violation(law.Name+":"+mode, map[string]any{"law": law.Name, "class": inst.Class, "sql": "SELECT " + strings.Join(inst.Exprs, ", "), "args": inst.Args, "values": canonVals(vals), "failure": mode})
}

func safeCheck(inst *Inst, vals []Val) (mode string) {
	defer func() {
		if rec := recover(); rec != nil {
			mode = Skip(fmt.Sprintf("oracle-panic:%v", rec))
		}
	}()
	return inst.Check(vals)
}

func canonVals(vals []Val) []string {
	out := make([]string, len(vals))
	for i, v := range vals {
		if v.Err != nil {
			out[i] = "ERR:" + v.Err.Error()
		} else {
			out[i] = core.Clip(core.Canon(v.Raw), 600)
		}
	}
	return out
}

// Report writes the per-law counters into the evidence and checks that every law of the catalogue
// reached at least one verdict (mechanism floor) unless listed in mayBeSilent.
func (ru *Runner) Report(mayBeSilent ...string) {
	silentOK := map[string]bool{}
	for _, s := range mayBeSilent {
		silentOK[s] = true
	}
	ru.mu.Lock()
	defer ru.mu.Unlock()
	per := map[string]int64{}
	var missing []string
	for _, l := range ru.Laws {
		per[l.Name] = ru.perLaw[l.Name]
		if ru.perLaw[l.Name] == 0 && !silentOK[l.Name] {
			missing = append(missing, l.Name)
		}
	}
	sort.Strings(missing)
	ru.R.Extra("evaluations_per_law", per)
	ru.R.Extra("laws", len(ru.Laws))
	ru.R.Floor(len(missing) == 0, "laws that never reached a verdict: "+strings.Join(missing, ","))
}

// RunOne evaluates a single instance on a fresh engine and returns the failure mode ("" = held),
// for pinned witnesses. An SQL error is reported as "error", a panic as "panic:<site>".
func RunOne(inst *Inst) (mode string, detail string) {
	e := core.NewEng("d")
	defer e.Close()
	s := e.NewSess()
	for _, q := range inst.Setup {
		s.Exec(q)
	}
	q := "SELECT " + strings.Join(inst.Exprs, ", ")
	res := s.Exec(q)
	switch {
	case res.Panic != nil:
		return "panic:" + res.Panic.Site, res.Panic.Value
	case res.TimedOut:
		return Skip("timeout"), ""
	case res.Err != nil:
		if inst.OnErr == ErrToCheck {
			return safeCheck(inst, []Val{{Err: res.Err, ErrClass: res.ErrClass()}}), res.Err.Error()
		}
		return "error", res.Err.Error()
	}
	if len(res.Rows) != 1 {
		return "row-shape", ""
	}
	vals := make([]Val, len(res.Rows[0]))
	for j := range vals {
		vals[j] = Val{Raw: res.Rows[0][j], Warnings: len(res.Warnings)}
	}
	return safeCheck(inst, vals), strings.Join(canonVals(vals), " | ")
}

// PinnedInst replays a pinned witness instance: it still fails when its failure mode equals mode.
func PinnedInst(r *core.Run, law, mode, what string, inst *Inst) {
	got, detail := RunOne(inst)
	sig := law + ":" + mode
	r.Pinned(sig, fmt.Sprintf("%s (SELECT %s -> %s)", what, core.Clip(strings.Join(inst.Exprs, ", "), 200), core.Clip(detail, 200)), got == mode,
		map[string]any{"law": law, "sql": "SELECT " + strings.Join(inst.Exprs, ", "), "observed": detail, "failure": got})
	if got != mode && got != "" {
		if _, skip := isSkip(got); !skip {
			// the pinned witness now fails differently: report as its own signature
			r.Violation(law+":"+got, map[string]any{"law": law, "sql": "SELECT " + strings.Join(inst.Exprs, ", "), "observed": detail, "pinned-for": sig})
		}
	}
}

// ErrOf returns the error text when the predicate was called for an SQL error (ErrToCheck), else "".
func ErrOf(v []Val) string {
	if len(v) == 1 && v[0].Err != nil {
		return v[0].Err.Error()
	}
	return ""
}

// Pin replays one pinned witness of a known finding: the expression must give `correct` (canonical text,
// core.Canon); while it gives `wrong` (canonical text, or an error containing the text after "ERR:") the
// known finding law:mode still holds. setup statements run first on the fresh session.
func Pin(r *core.Run, law, mode, what, expr, correct, wrong string, setup ...string) {
	PinnedInst(r, law, mode, what, &Inst{Class: "pinned", Exprs: []string{expr}, OnErr: ErrToCheck, Setup: setup, Check: func(v []Val) string {
		if IsErr(v) {
			if strings.HasPrefix(wrong, "ERR:") && strings.Contains(ErrOf(v), wrong[4:]) {
				return mode
			}
			return "error"
		}
		switch v[0].Canon() {
		case correct:
			return ""
		case wrong:
			return mode
		}
		return "pinned-witness-gives-a-third-value"
	}})
}

// IsErr reports whether the predicate was called for an SQL error.
func IsErr(v []Val) bool { return len(v) == 1 && v[0].Err != nil }
