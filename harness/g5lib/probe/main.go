// probe: reads SQL statements (one per line) from stdin, runs them on one fresh engine session and
// prints canonical results, errors, panics and warnings. Triage aid for the g5 monitors.
package main

import (
	"bufio"
	"fmt"
	"os"
	"strings"

	"verif/harness/core"
)

func main() {
	e := core.NewEng("d")
	defer e.Close()
	s := e.NewSess()
	sc := bufio.NewScanner(os.Stdin)
	sc.Buffer(make([]byte, 1<<22), 1<<22)
	for sc.Scan() {
		q := strings.TrimSpace(sc.Text())
		if q == "" || strings.HasPrefix(q, "--") {
			continue
		}
		res := s.Exec(q)
		fmt.Printf("> %s\n", q)
		switch {
		case res.Panic != nil:
			fmt.Printf("  PANIC %s at %s\n", res.Panic.Value, res.Panic.Site)
		case res.TimedOut:
			fmt.Printf("  TIMEOUT\n")
		case res.Err != nil:
			fmt.Printf("  ERR[%s] %v\n", res.ErrClass(), res.Err)
		default:
			for _, row := range res.Rows {
				parts := make([]string, len(row))
				for i, v := range row {
					parts[i] = fmt.Sprintf("%s(%T)", core.Canon(v), v)
				}
				fmt.Printf("  %s\n", strings.Join(parts, " | "))
			}
			for _, w := range res.Warnings {
				fmt.Printf("  WARN %d %s\n", w.Code, w.Message)
			}
		}
	}
}
