package g5lib

import (
	"context"
	"fmt"
	"math/big"
	"math/rand"
	"strconv"
	"strings"
	"time"
	"unicode/utf8"

	"github.com/dolthub/go-mysql-server/sql"

	"verif/harness/core"
)

// Val is one value returned by the engine for one expression of an instance (or the error of the
// whole instance when the law asked for ErrToCheck).
type Val struct {
	Raw      any
	Err      error
	ErrClass string
	Warnings int // number of warnings of the statement (only meaningful for Single instances)
}

func (v Val) unwrap() any {
	if w, ok := v.Raw.(sql.AnyWrapper); ok {
		u, err := w.UnwrapAny(context.Background())
		if err == nil {
			return u
		}
	}
	return v.Raw
}

// IsNull reports SQL NULL.
func (v Val) IsNull() bool { return v.Err == nil && v.Raw == nil }

// Canon is the canonical text (core.Canon).
func (v Val) Canon() string {
	if v.Err != nil {
		return "ERR"
	}
	return core.Canon(v.Raw)
}

// Str returns the value as a Go string when it is a string or a byte string.
func (v Val) Str() (string, bool) {
	switch x := v.unwrap().(type) {
	case string:
		return x, true
	case []byte:
		return string(x), true
	}
	return "", false
}

// Int returns the value as an integer when it is an integral number (bool counts as 0/1).
func (v Val) Int() (int64, bool) {
	switch x := v.unwrap().(type) {
	case bool:
		if x {
			return 1, true
		}
		return 0, true
	case int:
		return int64(x), true
	case int8:
		return int64(x), true
	case int16:
		return int64(x), true
	case int32:
		return int64(x), true
	case int64:
		return x, true
	case uint8:
		return int64(x), true
	case uint16:
		return int64(x), true
	case uint32:
		return int64(x), true
	case uint64:
		if x <= 1<<63-1 {
			return int64(x), true
		}
		return 0, false
	case uint:
		return int64(x), true
	}
	// exact decimal / float holding an integer
	if r, ok := v.Rat(); ok && r.IsInt() && r.Num().IsInt64() {
		return r.Num().Int64(), true
	}
	return 0, false
}

// Rat returns the value as an exact rational when it is numeric (not for strings).
func (v Val) Rat() (*big.Rat, bool) {
	switch v.unwrap().(type) {
	case string, []byte, nil, time.Time:
		return nil, false
	}
	return core.Rat(core.Canon(v.Raw))
}

// Float returns a float64 for any numeric value.
func (v Val) Float() (float64, bool) {
	switch x := v.unwrap().(type) {
	case float64:
		return x, true
	case float32:
		return float64(x), true
	}
	if r, ok := v.Rat(); ok {
		f, _ := r.Float64()
		return f, true
	}
	return 0, false
}

// Time returns a time.Time value.
func (v Val) Time() (time.Time, bool) {
	t, ok := v.unwrap().(time.Time)
	return t, ok
}

// IsStr compares with an expected string (NULL never equals).
func (v Val) IsStr(want string) bool { s, ok := v.Str(); return ok && s == want }

// IsInt compares with an expected integer.
func (v Val) IsInt(want int64) bool { n, ok := v.Int(); return ok && n == want }

// Truth maps an SQL boolean/integer result to 1, 0 or -1 (NULL / not a boolean).
func (v Val) Truth() int {
	if v.IsNull() {
		return -1
	}
	if n, ok := v.Int(); ok {
		if n != 0 {
			return 1
		}
		return 0
	}
	return -1
}

// ---- SQL literal rendering ----

// Q renders a Go string as an SQL string literal that denotes exactly these bytes (utf8mb4 text):
// quote doubled, backslash doubled, NUL and Ctrl-Z escaped. Requires valid UTF-8.
func Q(s string) string {
	var b strings.Builder
	b.Grow(len(s) + 2)
	b.WriteByte('\'')
	for i := 0; i < len(s); i++ {
		c := s[i]
		switch c {
		case '\'':
			b.WriteString("''")
		case '\\':
			b.WriteString("\\\\")
		case 0:
			b.WriteString("\\0")
		case 26:
			b.WriteString("\\Z")
		case '\n':
			b.WriteString("\\n")
		case '\r':
			b.WriteString("\\r")
		default:
			b.WriteByte(c)
		}
	}
	b.WriteByte('\'')
	return b.String()
}

// X renders bytes as a hexadecimal (binary string) literal.
func X(b []byte) string { return fmt.Sprintf("x'%x'", b) }

// QN renders a nullable string: nil → NULL.
func QN(s *string) string {
	if s == nil {
		return "NULL"
	}
	return Q(*s)
}

// I renders an integer (negative numbers parenthesised).
func I(n int64) string {
	if n < 0 {
		return "(" + strconv.FormatInt(n, 10) + ")"
	}
	return strconv.FormatInt(n, 10)
}

// ---- string generators ----

var alphabets = map[string][]rune{
	"ascii":   []rune("abcxyzABC019 _-.,"),
	"latin":   []rune("aÀÉéñüßøÆ z"),
	"cjk":     []rune("日本語中文한글aб"),
	"emoji":   []rune("a😀𝄞𐍈b"),
	"special": []rune("a'\"\\%_\n\t ;"),
}

// StrClasses lists the string classes of GenStr.
var StrClasses = []string{"empty", "ascii", "latin", "cjk", "emoji", "special", "mixed", "long"}

// GenStr generates a string of a random class; returns (string, class).
func GenStr(rnd *rand.Rand) (string, string) {
	c := StrClasses[rnd.Intn(len(StrClasses))]
	return GenStrClass(rnd, c), c
}

// GenStrClass generates a string of the given class.
func GenStrClass(rnd *rand.Rand, c string) string {
	pick := func(al []rune, n int) string {
		var b strings.Builder
		for i := 0; i < n; i++ {
			b.WriteRune(al[rnd.Intn(len(al))])
		}
		return b.String()
	}
	switch c {
	case "empty":
		return ""
	case "mixed":
		var b strings.Builder
		n := 1 + rnd.Intn(10)
		keys := []string{"ascii", "latin", "cjk", "emoji"}
		for i := 0; i < n; i++ {
			al := alphabets[keys[rnd.Intn(len(keys))]]
			b.WriteRune(al[rnd.Intn(len(al))])
		}
		return b.String()
	case "long":
		return pick(alphabets["ascii"], 40+rnd.Intn(200))
	}
	return pick(alphabets[c], 1+rnd.Intn(10))
}

// MultiByte reports whether s contains a multi-byte rune.
func MultiByte(s string) bool { return utf8.RuneCountInString(s) != len(s) }

// Runes is the rune count.
func Runes(s string) int { return utf8.RuneCountInString(s) }

// GenBytes generates a byte string (class: empty/short/zeros/high/long).
func GenBytes(rnd *rand.Rand) ([]byte, string) {
	switch rnd.Intn(5) {
	case 0:
		return []byte{}, "empty"
	case 1:
		b := make([]byte, 1+rnd.Intn(8))
		rnd.Read(b)
		return b, "short"
	case 2:
		return make([]byte, 1+rnd.Intn(6)), "zeros"
	case 3:
		b := make([]byte, 1+rnd.Intn(12))
		for i := range b {
			b[i] = byte(0x80 + rnd.Intn(0x80))
		}
		return b, "high"
	}
	b := make([]byte, 50+rnd.Intn(400))
	rnd.Read(b)
	return b, "long"
}

// ---- check helpers ----

// WantStr builds a predicate: the single value must be exactly this string.
func WantStr(want string, mode string) func([]Val) string {
	return func(v []Val) string {
		if v[0].IsStr(want) {
			return ""
		}
		return mode
	}
}

// WantInt builds a predicate: the single value must be exactly this integer.
func WantInt(want int64, mode string) func([]Val) string {
	return func(v []Val) string {
		if v[0].IsInt(want) {
			return ""
		}
		return mode
	}
}

// WantNull builds a predicate: the single value must be NULL.
func WantNull(mode string) func([]Val) string {
	return func(v []Val) string {
		if v[0].IsNull() {
			return ""
		}
		return mode
	}
}

// WantRat builds a predicate: the single value must be numerically equal to want.
func WantRat(want *big.Rat, mode string) func([]Val) string {
	return func(v []Val) string {
		if r, ok := v[0].Rat(); ok && r.Cmp(want) == 0 {
			return ""
		}
		return mode
	}
}

// NewInst is a constructor for the common case.
func NewInst(class string, args any, check func([]Val) string, exprs ...string) *Inst {
	return &Inst{Class: class, Args: args, Check: check, Exprs: exprs}
}
