package g6alib

import (
	"strings"

	"verif/harness/core"
)

// Outcome is the comparable summary of one execution: either a sorted multiset of canonical rows
// (and the sequence as returned), or a failure class.
type Outcome struct {
	Class  string   // "rows", or the failure class: MySQL errno text / "err" / "panic" / "timeout"
	Sorted []string // canonical rows, sorted (multiset)
	Seq    []string // canonical rows in result order
	Err    string
	Panic  *core.PanicInfo
}

// Run executes q on s and summarises the result.
func Run(s *core.Sess, q string) Outcome {
	res := s.Exec(q)
	return Summarise(res)
}

// Summarise turns a core.Result into an Outcome.
func Summarise(res *core.Result) Outcome {
	if res.Failed() {
		o := Outcome{Class: res.ErrClass(), Panic: res.Panic}
		if res.Err != nil {
			o.Err = res.Err.Error()
		}
		if res.Panic != nil {
			o.Err = res.Panic.Value
		}
		return o
	}
	return Outcome{Class: "rows", Seq: core.CanonRows(res.Rows), Sorted: core.SortedRows(res.Rows)}
}

// OK reports whether rows were delivered.
func (o Outcome) OK() bool { return o.Class == "rows" }

// SameMultiset compares two outcomes: equal row multisets, or the same failure class.
func (o Outcome) SameMultiset(p Outcome) bool {
	if o.Class != p.Class {
		return false
	}
	return core.SameStrings(o.Sorted, p.Sorted)
}

// Brief renders an outcome for witnesses.
func (o Outcome) Brief() any {
	if o.OK() {
		return core.ClipStrings(o.Sorted, 40)
	}
	return "FAILED class=" + o.Class + " " + core.Clip(o.Err, 300)
}

// Unsupported reports whether a failure belongs to the documented "unsupported / parse" class, which
// is inconclusive rather than a verdict.
func (o Outcome) Unsupported() bool {
	if o.OK() || o.Panic != nil {
		return false
	}
	if o.Class == "1064" || o.Class == "1235" { // parse error, not supported
		return true
	}
	l := strings.ToLower(o.Err)
	return strings.Contains(l, "unsupported") || strings.Contains(l, "not supported") || strings.Contains(l, "syntax error")
}

// SetupAll runs setup statements (panics through MustExec when one fails).
func SetupAll(s *core.Sess, stmts []string) {
	for _, q := range stmts {
		s.MustExec(q)
	}
}

// MultisetDiff returns the rows only in a and only in b (both sorted canonical multisets).
func MultisetDiff(a, b []string) (onlyA, onlyB []string) {
	i, j := 0, 0
	for i < len(a) && j < len(b) {
		switch {
		case a[i] == b[j]:
			i++
			j++
		case a[i] < b[j]:
			onlyA = append(onlyA, a[i])
			i++
		default:
			onlyB = append(onlyB, b[j])
			j++
		}
	}
	onlyA = append(onlyA, a[i:]...)
	onlyB = append(onlyB, b[j:]...)
	return
}
