package g6alib

import (
	"regexp"
	"sort"
	"strconv"
	"strings"
)

// planContent strips the tree-drawing prefix of one plan line and returns (depth, content).
func planContent(line string) (int, string) {
	rs := []rune(line)
	i := 0
	for i < len(rs) {
		switch rs[i] {
		case ' ', '│', '├', '└', '─':
			i++
			continue
		}
		break
	}
	return i, string(rs[i:])
}

var opRe = regexp.MustCompile(`^([A-Z][A-Za-z]*)(\(.*\))?$`)

// opName recognises an operator line of a plan ("Project", "Limit(2)", "Sort(t.b ASC)",
// "IndexedTableAccess(t)", "LeftOuterHashJoin"): a CamelCase word, optionally followed by a
// parenthesised argument, alone on the line. Detail lines ("columns: [...]", "(t.a = u.a)",
// "NOT(...)", "COUNT(1)") are not: they contain ": " first, start with "(" or are all upper case.
func opName(c string) (string, bool) {
	m := opRe.FindStringSubmatch(c)
	if m == nil {
		return "", false
	}
	if strings.ToUpper(m[1]) == m[1] {
		return "", false
	}
	return m[1], true
}

// Fingerprint reduces a plan text to its operator skeleton: operator names with their tree depth,
// the table of every access, the index used and its direction; literals, column lists, filter
// expressions, ranges and ids are dropped.
func Fingerprint(plan string) string {
	var b strings.Builder
	for _, line := range strings.Split(plan, "\n") {
		d, c := planContent(line)
		if c == "" {
			continue
		}
		switch {
		case strings.HasPrefix(c, "IndexedTableAccess("), strings.HasPrefix(c, "TableAlias("):
			b.WriteString(itoa(d) + ":" + c + ";")
		case strings.HasPrefix(c, "name: "), strings.HasPrefix(c, "index: "), strings.HasPrefix(c, "reverse: "):
			b.WriteString(c + ";")
		default:
			if m, ok := opName(c); ok {
				b.WriteString(itoa(d) + ":" + m + ";")
			}
		}
	}
	return b.String()
}

func itoa(i int) string { return strconv.Itoa(i) }

// Operators lists the distinct operator names of a plan (sorted).
func Operators(plan string) []string {
	seen := map[string]bool{}
	for _, line := range strings.Split(plan, "\n") {
		_, c := planContent(line)
		if m, ok := opName(c); ok {
			seen[m] = true
		}
	}
	out := make([]string, 0, len(seen))
	for k := range seen {
		out = append(out, k)
	}
	sort.Strings(out)
	return out
}

// UsesIndex reports whether the plan reads some table through an index.
func UsesIndex(plan string) bool { return strings.Contains(plan, "IndexedTableAccess(") }

var indexLineRe = regexp.MustCompile(`index: \[([^\]]*)\]`)
var filtersLineRe = regexp.MustCompile(`filters: (\[.*\])`)

// IndexesUsed returns the column lists (unqualified names) of every "index: [t.a,t.b]" line.
func IndexesUsed(plan string) [][]string {
	var out [][]string
	for _, m := range indexLineRe.FindAllStringSubmatch(plan, -1) {
		var cols []string
		for _, c := range strings.Split(m[1], ",") {
			c = strings.TrimSpace(c)
			if k := strings.LastIndex(c, "."); k >= 0 {
				c = c[k+1:]
			}
			cols = append(cols, c)
		}
		out = append(out, cols)
	}
	return out
}

// RangeStrings returns the "filters: [...]" range lists of a plan's index accesses.
func RangeStrings(plan string) []string {
	var out []string
	for _, m := range filtersLineRe.FindAllStringSubmatch(plan, -1) {
		out = append(out, m[1])
	}
	return out
}

// FullRangeOnly reports whether every index access of the plan covers the whole index
// ([NULL, ∞) on each column), i.e. the index only supplies order, not a lookup.
func FullRangeOnly(plan string) bool {
	rs := RangeStrings(plan)
	if len(rs) == 0 {
		return false
	}
	for _, r := range rs {
		x := strings.ReplaceAll(r, "[NULL, ∞)", "")
		x = strings.Trim(x, "[]{}, ")
		if x != "" {
			return false
		}
	}
	return true
}
