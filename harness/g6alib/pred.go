package g6alib

import (
	"math/rand"
	"strings"
)

// Atom describes one atomic condition of a generated filter.
type Atom struct {
	Col      string
	Op       string   // eq ne lt le gt ge nse in notin isnull notnull between notbetween like nsenull
	LitClass string   // pool near null-in-list dup-in-list reversed ood ...
	Lits     []string // the literal texts used (NULL included)
	SQL      string
}

// Pred is a generated filter.
type Pred struct {
	SQL   string
	Atoms []Atom
	Shape string // atom and2 and3 or2 or3 not mixed
}

// PredOpts steers GenPred.
type PredOpts struct {
	Qual string // "" or "t." — qualifier put in front of column names
	OOD  bool   // draw literals from the out-of-domain class (never in the core domain)
}

var cmpOps = []struct{ name, sym string }{{"eq", "="}, {"ne", "<>"}, {"lt", "<"}, {"le", "<="}, {"gt", ">"}, {"ge", ">="}, {"nse", "<=>"}}

func (o PredOpts) lit(rnd *rand.Rand, t ColType) (string, string) {
	if o.OOD && len(t.OOD) > 0 && rnd.Intn(2) == 0 {
		return t.OOD[rnd.Intn(len(t.OOD))], "ood"
	}
	return t.Lit(rnd)
}

// GenAtom generates one atomic condition on column c.
func GenAtom(rnd *rand.Rand, c Col, o PredOpts) Atom {
	name := o.Qual + c.Name
	a := Atom{Col: c.Name}
	k := rnd.Intn(100)
	isStr := c.T.Kind == KStrBin || c.T.Kind == KStrCI || c.T.Kind == KBinary
	switch {
	case k < 45:
		op := cmpOps[rnd.Intn(len(cmpOps))]
		l, cl := o.lit(rnd, c.T)
		a.Op, a.LitClass = op.name, cl
		a.Lits = []string{l}
		a.SQL = name + " " + op.sym + " " + l
	case k < 60:
		n := 1 + rnd.Intn(4)
		var ls []string
		a.LitClass = "pool"
		for i := 0; i < n; i++ {
			l, cl := o.lit(rnd, c.T)
			if cl == "ood" {
				a.LitClass = "ood"
			}
			ls = append(ls, l)
		}
		if rnd.Intn(5) == 0 {
			ls = append(ls, "NULL")
			if a.LitClass != "ood" {
				a.LitClass = "null-in-list"
			}
		} else if rnd.Intn(5) == 0 {
			ls = append(ls, ls[0])
			if a.LitClass != "ood" {
				a.LitClass = "dup-in-list"
			}
		}
		a.Op = "in"
		neg := ""
		if rnd.Intn(4) == 0 {
			a.Op = "notin"
			neg = "NOT "
		}
		a.Lits = ls
		a.SQL = name + " " + neg + "IN (" + strings.Join(ls, ", ") + ")"
	case k < 68:
		a.Op, a.LitClass = "isnull", "none"
		a.SQL = name + " IS NULL"
	case k < 75:
		a.Op, a.LitClass = "notnull", "none"
		a.SQL = name + " IS NOT NULL"
	case k < 90:
		l1, c1 := o.lit(rnd, c.T)
		l2, c2 := o.lit(rnd, c.T)
		a.Op, a.LitClass = "between", "pool"
		if c1 == "ood" || c2 == "ood" {
			a.LitClass = "ood"
		}
		neg := ""
		if rnd.Intn(6) == 0 {
			a.Op = "notbetween"
			neg = "NOT "
		}
		// bounds are deliberately not ordered: reversed bounds (empty range) are part of the workload
		a.Lits = []string{l1, l2}
		a.SQL = name + " " + neg + "BETWEEN " + l1 + " AND " + l2
	case k < 95:
		a.Op, a.LitClass = "nsenull", "none"
		a.SQL = name + " <=> NULL"
	default:
		if isStr {
			pats := []string{"'a%'", "'ab%'", "'b%'", "'A%'", "'%'", "'abc'", "'a_'", "'z%'"}
			a.Op, a.LitClass = "like", "pattern"
			a.SQL = name + " LIKE " + pats[rnd.Intn(len(pats))]
		} else {
			l, cl := o.lit(rnd, c.T)
			a.Op, a.LitClass = "eq", cl
			a.Lits = []string{l}
			a.SQL = name + " = " + l
		}
	}
	return a
}

// GenPred generates a filter over the given columns (conjunctions, disjunctions, negations of atoms).
func GenPred(rnd *rand.Rand, cols []Col, o PredOpts) Pred {
	pick := func() Col { return cols[rnd.Intn(len(cols))] }
	atoms := func(n int) []Atom {
		out := make([]Atom, n)
		for i := range out {
			out[i] = GenAtom(rnd, pick(), o)
		}
		return out
	}
	join := func(as []Atom, sep string) string {
		ss := make([]string, len(as))
		for i, a := range as {
			ss[i] = a.SQL
		}
		return strings.Join(ss, sep)
	}
	k := rnd.Intn(100)
	switch {
	case k < 40:
		as := atoms(1)
		return Pred{SQL: as[0].SQL, Atoms: as, Shape: "atom"}
	case k < 65:
		n := 2 + rnd.Intn(2)
		as := atoms(n)
		return Pred{SQL: join(as, " AND "), Atoms: as, Shape: "and" + string(rune('0'+n))}
	case k < 82:
		n := 2 + rnd.Intn(2)
		as := atoms(n)
		return Pred{SQL: join(as, " OR "), Atoms: as, Shape: "or" + string(rune('0'+n))}
	case k < 92:
		n := 1 + rnd.Intn(2)
		as := atoms(n)
		sep := " AND "
		if rnd.Intn(2) == 0 {
			sep = " OR "
		}
		return Pred{SQL: "NOT (" + join(as, sep) + ")", Atoms: as, Shape: "not"}
	default:
		as := atoms(3)
		sql := as[0].SQL + " AND (" + as[1].SQL + " OR " + as[2].SQL + ")"
		if rnd.Intn(2) == 0 {
			sql = "(" + as[0].SQL + " AND " + as[1].SQL + ") OR " + as[2].SQL
		}
		return Pred{SQL: sql, Atoms: as, Shape: "mixed"}
	}
}
