// scratch probe: reads ;-terminated statements from stdin, prints rows; lines starting with "plan " print the plan
package main

import (
	"bufio"
	"fmt"
	"os"
	"strings"
	"time"

	"verif/harness/core"
)

func main() {
	core.StmtTimeout = 10 * time.Second
	e := core.NewEng("d")
	defer e.Close()
	s := e.NewSess()
	sc := bufio.NewScanner(os.Stdin)
	sc.Buffer(make([]byte, 1<<20), 1<<20)
	var buf strings.Builder
	for sc.Scan() {
		line := sc.Text()
		buf.WriteString(line)
		buf.WriteString("\n")
		if !strings.HasSuffix(strings.TrimSpace(line), ";") {
			continue
		}
		q := strings.TrimSpace(buf.String())
		q = strings.TrimSuffix(q, ";")
		buf.Reset()
		if strings.HasPrefix(q, "plan ") {
			fmt.Println("--", q)
			fmt.Print(s.Plan(q[5:]))
			continue
		}
		res := s.Exec(q)
		fmt.Println("--", q)
		if res.Failed() {
			fmt.Println("  FAILED class=", res.ErrClass(), "err=", res.Err, "panic=", res.Panic != nil)
			if res.Panic != nil {
				fmt.Println("  ", res.Panic.Sig())
			}
			continue
		}
		for _, r := range core.CanonRows(res.Rows) {
			fmt.Println("  ", r)
		}
	}
}
