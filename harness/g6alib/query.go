package g6alib

import (
	"fmt"
	"math/rand"
	"strings"
)

// ---- schema for the plan-independence monitor (C01) ----------------------------------------------------
//
// Every table has the same column set so that any two can be joined on anything:
//   id INT PK, a INT, b INT (join keys: tiny domains, NULLs, duplicates), lo/hi INT (lo <= hi, for range
//   joins), s VARCHAR(8) binary collation, d DECIMAL(6,2). No floating-point columns (summation order).

var (
	jKey  = ColType{Name: "jkey", Decl: "INT", Kind: KInt, Pool: []string{"0", "1", "2", "3"}, Near: []string{"-1", "4"}}
	jVal  = ColType{Name: "jval", Decl: "INT", Kind: KInt, Pool: []string{"0", "1", "2", "3", "4", "5"}, Near: []string{"-1", "6"}}
	jStr  = ColType{Name: "jstr", Decl: "VARCHAR(8) COLLATE utf8mb4_0900_bin", Kind: KStrBin, Pool: q("a", "ab", "b", "B"), Near: q("c", "")}
	jDec  = ColType{Name: "jdec", Decl: "DECIMAL(6,2)", Kind: KDecimal, Pool: []string{"0.00", "1.50", "2.00", "3.25"}, Near: []string{"1.00", "4.00"}}
	jCols = []Col{{Name: "id", T: IntType, NotNull: true}, {Name: "a", T: jKey}, {Name: "b", T: jVal}, {Name: "lo", T: jVal}, {Name: "hi", T: jVal}, {Name: "s", T: jStr}, {Name: "d", T: jDec}}
)

// JoinCols returns the column set of the C01 tables.
func JoinCols() []Col { return jCols }

// GenJoinSchema generates n tables t1..tn with the common column set, a primary key on id, a random set
// of secondary indexes, and 0..maxRows rows.
func GenJoinSchema(rnd *rand.Rand, n, maxRows int) []*Table {
	var out []*Table
	for i := 1; i <= n; i++ {
		t := &Table{Name: fmt.Sprintf("t%d", i), Cols: jCols, PK: []string{"id"}}
		cands := []Index{
			{Cols: []string{"a"}, Shape: "sec1"}, {Cols: []string{"b"}, Shape: "sec1"}, {Cols: []string{"a", "b"}, Shape: "multi2"},
			{Cols: []string{"lo"}, Shape: "sec1"}, {Cols: []string{"s"}, Shape: "sec1"}, {Cols: []string{"b", "a"}, Shape: "multi2"}, {Cols: []string{"lo", "hi"}, Shape: "multi2"},
		}
		for k, c := range cands {
			if rnd.Intn(3) == 0 {
				c.Name = fmt.Sprintf("k%d", k)
				t.Idx = append(t.Idx, c)
			}
		}
		nrows := rnd.Intn(maxRows + 1)
		if rnd.Intn(3) > 0 && nrows < maxRows/2 {
			nrows += maxRows / 2
		}
		for r := 1; r <= nrows; r++ {
			lo := jVal.Val(rnd, 10)
			hi := "NULL"
			if lo != "NULL" && rnd.Intn(10) > 0 {
				var l int
				fmt.Sscan(lo, &l)
				hi = fmt.Sprint(l + rnd.Intn(3))
			} else if rnd.Intn(2) == 0 {
				hi = jVal.Val(rnd, 0)
			}
			t.Rows = append(t.Rows, []string{fmt.Sprint(r), jKey.Val(rnd, 20), jVal.Val(rnd, 15), lo, hi, jStr.Val(rnd, 20), jDec.Val(rnd, 20)})
		}
		out = append(out, t)
	}
	return out
}

// WithoutSecondary returns the same table without its secondary indexes (primary key kept).
func (t *Table) WithoutSecondary() *Table {
	c := *t
	c.Idx = nil
	return &c
}

// ---- queries ------------------------------------------------------------------------------------------

// Query is a generated read-only query with a slot for optimizer hints.
type Query struct {
	Head     string   // "SELECT" or "WITH ... SELECT"
	Body     string   // everything after the SELECT keyword
	Aliases  []string // table aliases of the outermost FROM clause (for hints)
	Ordered  bool     // ORDER BY lists every output column: the sequence is determined
	Shape    string   // j2 j3 j4 semi jsemi agg derived cte
	Features []string // join kinds, condition kinds, subquery kinds ... (evidence and exclusions)
	NTables  int
	Depth    int // subquery nesting depth
}

// SQL renders the query with an optional hint comment.
func (qy Query) SQL(hint string) string {
	if hint == "" {
		return qy.Head + " " + qy.Body
	}
	return qy.Head + " /*+ " + hint + " */ " + qy.Body
}

// Has reports whether the query carries a feature tag.
func (qy Query) Has(f string) bool {
	for _, x := range qy.Features {
		if x == f {
			return true
		}
	}
	return false
}

type qgen struct {
	rnd    *rand.Rand
	tabs   []*Table
	feat   map[string]bool
	subN   int
	depth  int
	maxDep int
	nt     int
}

func (g *qgen) tag(f string) { g.feat[f] = true }

func (g *qgen) table() string { return g.tabs[g.rnd.Intn(len(g.tabs))].Name }

// filter draws a small predicate over alias al: 1-2 atoms on the common columns.
func (g *qgen) filter(al string) string {
	cols := []Col{jCols[1], jCols[2], jCols[2], jCols[3], jCols[5], jCols[6], jCols[0]}
	one := func() string {
		for {
			c := cols[g.rnd.Intn(len(cols))]
			a := GenAtom(g.rnd, c, PredOpts{Qual: al + "."})
			// <> / NOT IN with a fractional literal on the DECIMAL column is C03's known finding
			if c.T.Kind == KDecimal && (a.Op == "ne" || a.Op == "notin") {
				continue
			}
			g.tag("filter:" + a.Op)
			return a.SQL
		}
	}
	if g.rnd.Intn(3) == 0 {
		op := " AND "
		if g.rnd.Intn(2) == 0 {
			op = " OR "
		}
		return "(" + one() + op + one() + ")"
	}
	return one()
}

// joinCond draws an ON condition between an earlier alias l and the new alias r.
func (g *qgen) joinCond(l, r string) string {
	k := g.rnd.Intn(100)
	switch {
	case k < 30:
		g.tag("on:eq")
		c := [][2]string{{"a", "a"}, {"a", "a"}, {"b", "b"}, {"a", "b"}, {"s", "s"}, {"b", "lo"}}[g.rnd.Intn(6)]
		return fmt.Sprintf("%s.%s = %s.%s", l, c[0], r, c[1])
	case k < 42:
		g.tag("on:eq-pk")
		if g.rnd.Intn(2) == 0 {
			return fmt.Sprintf("%s.a = %s.id", l, r)
		}
		return fmt.Sprintf("%s.id = %s.b", l, r)
	case k < 52:
		g.tag("on:eq2")
		return fmt.Sprintf("%s.a = %s.a AND %s.b = %s.b", l, r, l, r)
	case k < 66:
		g.tag("on:range")
		switch g.rnd.Intn(3) {
		case 0:
			return fmt.Sprintf("%s.b BETWEEN %s.lo AND %s.hi", l, r, r)
		case 1:
			return fmt.Sprintf("%s.a >= %s.lo AND %s.a <= %s.hi", l, r, l, r)
		}
		return fmt.Sprintf("%s.b BETWEEN %s.lo AND %s.hi", r, l, l)
	case k < 74:
		g.tag("on:expr")
		if g.rnd.Intn(2) == 0 {
			return fmt.Sprintf("%s.a + 1 = %s.b", l, r)
		}
		return fmt.Sprintf("%s.a = %s.b - 1", l, r)
	case k < 80:
		g.tag("on:or")
		return fmt.Sprintf("(%s.a = %s.a OR %s.b = %s.b)", l, r, l, r)
	case k < 86:
		g.tag("on:ineq")
		return fmt.Sprintf("%s.a < %s.b", l, r)
	case k < 95:
		g.tag("on:eq+filter")
		return fmt.Sprintf("%s.a = %s.a AND %s", l, r, g.filter([]string{l, r}[g.rnd.Intn(2)]))
	default:
		if g.nt > 2 {
			// excluded class nse-join-transitive-equality: two <=> conditions sharing a column make the
			// planner derive a plain equality; <=> join conditions only in two-table queries
			g.tag("on:eq")
			return fmt.Sprintf("%s.b = %s.b", l, r)
		}
		g.tag("on:nse")
		return fmt.Sprintf("%s.a <=> %s.a", l, r)
	}
}

// subq draws a subquery predicate over outer alias al.
func (g *qgen) subq(al string) string {
	g.subN++
	in := fmt.Sprintf("q%d", g.subN)
	t := g.table()
	g.depth++
	defer func() { g.depth-- }()
	inner := ""
	if g.rnd.Intn(2) == 0 {
		inner = g.filter(in)
	}
	if g.depth < g.maxDep && g.rnd.Intn(3) == 0 {
		g.tag("nested-subquery")
		nest := g.subq(in)
		if inner == "" {
			inner = nest
		} else {
			inner += " AND " + nest
		}
	}
	where := func(corr string) string {
		var ps []string
		if corr != "" {
			ps = append(ps, corr)
		}
		if inner != "" {
			ps = append(ps, inner)
		}
		if len(ps) == 0 {
			return ""
		}
		return " WHERE " + strings.Join(ps, " AND ")
	}
	col := []string{"a", "a", "b", "s"}[g.rnd.Intn(4)]
	k := g.rnd.Intn(100)
	switch {
	case k < 28:
		g.tag("sub:in")
		return fmt.Sprintf("%s.%s IN (SELECT %s.%s FROM %s %s%s)", al, col, in, col, t, in, where(""))
	case k < 46:
		g.tag("sub:not-in")
		return fmt.Sprintf("%s.%s NOT IN (SELECT %s.%s FROM %s %s%s)", al, col, in, col, t, in, where(""))
	case k < 68:
		g.tag("sub:exists")
		return fmt.Sprintf("EXISTS (SELECT 1 FROM %s %s%s)", t, in, where(fmt.Sprintf("%s.%s = %s.%s", in, col, al, col)))
	case k < 88:
		g.tag("sub:not-exists")
		return fmt.Sprintf("NOT EXISTS (SELECT 1 FROM %s %s%s)", t, in, where(fmt.Sprintf("%s.%s = %s.%s", in, col, al, col)))
	case k < 94:
		g.tag("sub:scalar-agg")
		return fmt.Sprintf("%s.b >= (SELECT COUNT(*) FROM %s %s%s)", al, t, in, where(fmt.Sprintf("%s.a = %s.a", in, al)))
	default:
		g.tag("sub:in-pk")
		return fmt.Sprintf("%s.b IN (SELECT %s.id FROM %s %s%s)", al, in, t, in, where(""))
	}
}

var joinKinds = []string{"INNER JOIN", "INNER JOIN", "INNER JOIN", "LEFT JOIN", "LEFT JOIN", "RIGHT JOIN", "CROSS JOIN"}

// QueryOpts steers GenQuery.
type QueryOpts struct {
	MaxTables int // 2..4
	MaxDepth  int // subquery nesting (1 or 2)
}

// GenQuery generates one query over the tables.
func GenQuery(rnd *rand.Rand, tabs []*Table, o QueryOpts) Query {
	g := &qgen{rnd: rnd, tabs: tabs, feat: map[string]bool{}, maxDep: o.MaxDepth}
	var qy Query
	qy.Head = "SELECT"
	aliases := []string{"x", "y", "z", "w"}
	k := rnd.Intn(100)
	nt := 2
	switch {
	case k < 32:
		qy.Shape = "j2"
	case k < 46 && o.MaxTables >= 3:
		qy.Shape, nt = "j3", 3
	case k < 50 && o.MaxTables >= 4:
		qy.Shape, nt = "j4", 4
	case k < 68:
		qy.Shape, nt = "semi", 1
	case k < 78:
		qy.Shape = "jsemi"
	case k < 89:
		qy.Shape = "agg"
	case k < 95:
		qy.Shape = "derived"
	default:
		qy.Shape = "cte"
	}
	g.nt = nt
	var from strings.Builder
	var used []string
	cte := ""
	for i := 0; i < nt; i++ {
		al := aliases[i]
		src := g.table() + " " + al
		if i == 1 && qy.Shape == "derived" {
			t := g.table()
			switch rnd.Intn(3) {
			case 0:
				g.tag("derived:group")
				src = fmt.Sprintf("(SELECT a, COUNT(*) AS b, MIN(lo) AS lo, MAX(hi) AS hi, MAX(id) AS id, MIN(s) AS s, MIN(d) AS d FROM %s GROUP BY a) %s", t, al)
			case 1:
				g.tag("derived:filter")
				src = fmt.Sprintf("(SELECT id, a, b, lo, hi, s, d FROM %s WHERE %s) %s", t, g.filter(t), al)
			default:
				g.tag("derived:distinct")
				src = fmt.Sprintf("(SELECT DISTINCT a, b, lo, hi, s, d, a AS id FROM %s) %s", t, al)
			}
		}
		if qy.Shape == "cte" {
			if cte == "" {
				t := g.table()
				cte = fmt.Sprintf("WITH c AS (SELECT id, a, b, lo, hi, s, d FROM %s WHERE %s)", t, g.filter(t))
				g.tag("cte")
			}
			if i == 1 || rnd.Intn(2) == 0 {
				src = "c " + al
			}
		}
		if i == 0 {
			from.WriteString(src)
		} else {
			jk := joinKinds[rnd.Intn(len(joinKinds))]
			g.tag("join:" + strings.ToLower(strings.Fields(jk)[0]))
			from.WriteString(" " + jk + " " + src)
			if jk != "CROSS JOIN" {
				from.WriteString(" ON " + g.joinCond(used[rnd.Intn(len(used))], al))
			}
		}
		used = append(used, al)
	}
	if cte != "" {
		qy.Head = cte + " SELECT"
	}
	// WHERE
	var conj []string
	if qy.Shape == "semi" || qy.Shape == "jsemi" {
		conj = append(conj, g.subq(used[rnd.Intn(len(used))]))
		if rnd.Intn(5) == 0 {
			conj = append(conj, g.subq(used[rnd.Intn(len(used))]))
		}
	}
	if rnd.Intn(10) < 4 {
		conj = append(conj, g.filter(used[rnd.Intn(len(used))]))
	}
	if nt >= 2 && rnd.Intn(10) < 2 {
		g.tag("where:cross-table")
		a, b := used[rnd.Intn(len(used))], used[rnd.Intn(len(used))]
		if a != b {
			conj = append(conj, fmt.Sprintf("%s.b <> %s.b", a, b))
		}
	}
	where := ""
	if len(conj) > 0 {
		// excluded class where-or-across-three-tables: a WHERE disjunction in a query with more than two
		// tables gets attached to a join that lacks one of the referenced tables
		if len(conj) == 2 && rnd.Intn(4) == 0 && nt <= 2 {
			g.tag("where:or")
			where = " WHERE " + conj[0] + " OR " + conj[1]
		} else {
			where = " WHERE " + strings.Join(conj, " AND ")
		}
	}
	// select list
	var sel []string
	tail := ""
	if qy.Shape == "agg" {
		switch rnd.Intn(4) {
		case 0:
			g.tag("agg:distinct")
			sel = []string{"DISTINCT " + used[0] + ".a", used[len(used)-1] + ".b"}
		case 1:
			g.tag("agg:scalar")
			sel = []string{"COUNT(*)", fmt.Sprintf("SUM(%s.b)", used[len(used)-1]), fmt.Sprintf("MIN(%s.d)", used[0]), fmt.Sprintf("COUNT(%s.a)", used[len(used)-1])}
		default:
			g.tag("agg:group")
			gc := used[0] + ".a"
			sel = []string{gc, "COUNT(*)", fmt.Sprintf("SUM(%s.b)", used[len(used)-1]), fmt.Sprintf("MAX(%s.id)", used[len(used)-1])}
			tail = " GROUP BY " + gc
			if rnd.Intn(4) == 0 {
				g.tag("agg:having")
				tail += " HAVING COUNT(*) > 1"
			}
		}
	} else {
		for _, al := range used {
			sel = append(sel, al+".id")
		}
		extra := []string{"a", "b", "s", "d", "lo"}
		for n := rnd.Intn(3); n > 0; n-- {
			sel = append(sel, used[rnd.Intn(len(used))]+"."+extra[rnd.Intn(len(extra))])
		}
	}
	// ORDER BY every output column (by ordinal) -> determined sequence; LIMIT only then
	if rnd.Intn(10) < 4 {
		qy.Ordered = true
		g.tag("order-by-all")
		var ords []string
		for i := range sel {
			o := fmt.Sprint(i + 1)
			if rnd.Intn(4) == 0 {
				o += " DESC"
			}
			ords = append(ords, o)
		}
		tail += " ORDER BY " + strings.Join(ords, ", ")
		if rnd.Intn(4) == 0 {
			g.tag("limit")
			tail += fmt.Sprintf(" LIMIT %d", 1+rnd.Intn(6))
			if rnd.Intn(2) == 0 {
				tail += fmt.Sprintf(" OFFSET %d", rnd.Intn(4))
			}
		}
	}
	qy.Body = strings.Join(sel, ", ") + " FROM " + from.String() + where + tail
	qy.Aliases = used
	qy.NTables = nt
	qy.Depth = 0
	if g.subN > 0 {
		qy.Depth = 1
		if g.feat["nested-subquery"] {
			qy.Depth = 2
		}
	}
	for f := range g.feat {
		qy.Features = append(qy.Features, f)
	}
	sortStrings(qy.Features)
	return qy
}

func sortStrings(a []string) {
	for i := 1; i < len(a); i++ {
		for j := i; j > 0 && a[j] < a[j-1]; j-- {
			a[j], a[j-1] = a[j-1], a[j]
		}
	}
}
