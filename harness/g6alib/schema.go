package g6alib

import (
	"fmt"
	"math/rand"
	"strings"
)

// dedupKey is the value identity used to keep UNIQUE columns unique under the column's collation.
func dedupKey(t ColType, lit string) string {
	if t.Kind == KStrCI {
		return strings.ToLower(lit)
	}
	return lit
}

// GenOpts steers GenTable.
type GenOpts struct {
	Name      string
	Types     []ColType // palette to draw column types from
	MinCols   int
	MaxCols   int
	MaxRows   int
	NullPct   int
	Indexes   bool // generate secondary/unique/multi/prefix indexes
	CompPK    bool // allow composite primary keys
	ForceCols []ColType
}

// GenTable generates one table: id + typed columns c1..ck, a primary key (id, or composite with a
// NOT NULL typed column), and 1-3 further indexes of the shapes unique / sec1 / multi2 / multi3 / prefix.
func GenTable(rnd *rand.Rand, o GenOpts) *Table {
	t := &Table{Name: o.Name}
	t.Cols = append(t.Cols, Col{Name: "id", T: IntType, NotNull: true})
	n := o.MinCols + rnd.Intn(o.MaxCols-o.MinCols+1)
	for i := 0; i < n; i++ {
		var ct ColType
		if i < len(o.ForceCols) {
			ct = o.ForceCols[i]
		} else {
			ct = o.Types[rnd.Intn(len(o.Types))]
		}
		t.Cols = append(t.Cols, Col{Name: fmt.Sprintf("c%d", i+1), T: ct})
	}
	t.PK = []string{"id"}
	if o.CompPK && rnd.Intn(10) < 3 {
		k := 1 + rnd.Intn(n)
		t.Cols[k].NotNull = true
		if rnd.Intn(3) > 0 {
			t.PK = []string{t.Cols[k].Name, "id"}
		} else {
			t.PK = []string{"id", t.Cols[k].Name}
		}
	}
	if o.Indexes {
		nix := 1 + rnd.Intn(3)
		used := map[string]bool{}
		for i := 0; i < nix; i++ {
			ix := Index{Name: fmt.Sprintf("ix%d", i+1)}
			switch k := rnd.Intn(10); {
			case k < 3:
				ix.Shape = "sec1"
				ix.Cols = []string{t.Cols[1+rnd.Intn(n)].Name}
			case k < 5:
				ix.Shape = "unique"
				ix.Unique = true
				ix.Cols = []string{t.Cols[1+rnd.Intn(n)].Name}
			case k < 8 && n >= 2:
				p := rnd.Perm(n)
				w := 2
				if n >= 3 && rnd.Intn(2) == 0 {
					w = 3
				}
				ix.Shape = fmt.Sprintf("multi%d", w)
				for _, j := range p[:w] {
					ix.Cols = append(ix.Cols, t.Cols[1+j].Name)
				}
			default:
				var pc []int
				for j := 1; j <= n; j++ {
					if t.Cols[j].T.Prefixable {
						pc = append(pc, j)
					}
				}
				if len(pc) == 0 {
					ix.Shape = "sec1"
					ix.Cols = []string{t.Cols[1+rnd.Intn(n)].Name}
				} else {
					ix.Shape = "prefix"
					ix.Cols = []string{t.Cols[pc[rnd.Intn(len(pc))]].Name}
					ix.Prefix = []int{1 + rnd.Intn(2)}
				}
			}
			key := ix.Shape + ":" + strings.Join(ix.Cols, ",")
			if used[key] {
				continue
			}
			used[key] = true
			t.Idx = append(t.Idx, ix)
		}
	}
	t.FillRows(rnd, o.MaxRows, o.NullPct)
	return t
}

// FillRows generates 0..maxRows rows respecting NOT NULL and UNIQUE columns.
func (t *Table) FillRows(rnd *rand.Rand, maxRows, nullPct int) {
	nrows := rnd.Intn(maxRows + 1)
	if rnd.Intn(4) > 0 && nrows < maxRows/2 {
		nrows += maxRows / 2 // bias toward fuller tables
	}
	uniq := map[string]map[string]bool{}
	for _, ix := range t.Idx {
		if ix.Unique && len(ix.Cols) == 1 {
			uniq[ix.Cols[0]] = map[string]bool{}
		}
	}
	t.Rows = nil
	id := 0
rows:
	for r := 0; r < nrows; r++ {
		id++
		row := []string{fmt.Sprint(id)}
		for _, c := range t.Cols[1:] {
			np := nullPct
			if c.NotNull {
				np = 0
			}
			v := c.T.Val(rnd, np)
			if seen, ok := uniq[c.Name]; ok && v != "NULL" {
				tries := 0
				for seen[dedupKey(c.T, v)] {
					tries++
					if tries > 12 {
						if c.NotNull {
							continue rows
						}
						v = "NULL"
						break
					}
					v = c.T.Val(rnd, 0)
				}
				if v != "NULL" {
					seen[dedupKey(c.T, v)] = true
				}
			}
			row = append(row, v)
		}
		t.Rows = append(t.Rows, row)
	}
}

// ShapeOfIndexCols maps the column list printed in a plan ("index: [t.c1,t.c2]") to the shape of the
// table's index with exactly these columns ("pk1", "pkN", "unique", ...), or "".
func (t *Table) ShapeOfIndexCols(cols []string) string {
	same := func(a []string) bool {
		if len(a) != len(cols) {
			return false
		}
		for i := range a {
			if a[i] != cols[i] {
				return false
			}
		}
		return true
	}
	if same(t.PK) {
		if len(t.PK) == 1 {
			return "pk1"
		}
		return "pkN"
	}
	for _, ix := range t.Idx {
		if same(ix.Cols) {
			return ix.Shape
		}
	}
	return ""
}
