// Package g6alib holds the generators shared by the metamorphic query monitors C01, C03 and C04:
// a column-type palette with small in-domain value pools, table/index layouts with an index-free twin,
// filter predicates over typed columns, join/subquery query texts, and plan-text fingerprints.
// Everything is driven by the *rand.Rand handed in (core.Run.Rand), so a case is replayable alone.
package g6alib

import (
	"fmt"
	"math/rand"
	"strings"
)

// Kind is the comparison family of a column type (decides which literals are "of the column's kind"
// and which harness comparator C04 uses).
type Kind int

const (
	KInt Kind = iota
	KDecimal
	KFloat
	KStrBin // CHAR/VARCHAR under a binary collation
	KStrCI  // CHAR/VARCHAR under a case-insensitive collation
	KBinary // VARBINARY
	KDate
	KDatetime
	KTime
	KYear
	KEnum
	KBit
)

func (k Kind) String() string {
	return [...]string{"int", "decimal", "float", "strbin", "strci", "binary", "date", "datetime", "time", "year", "enum", "bit"}[k]
}

// ColType is one entry of the palette. Pool holds SQL literal texts of values of the column type
// (stored in rows and used in filters, so that equalities and joins really match); Near holds further
// in-domain literals that are usually absent from the data (neighbours, boundaries).
type ColType struct {
	Name string // short name used in evidence keys
	Decl string // SQL declaration
	Kind Kind
	Pool []string
	Near []string
	// Prefixable: a prefix index key(c(2)) can be declared on it
	Prefixable bool
	// OOD holds literals that are NOT values of the column type (out of range, fractional for an
	// integer, wrong temporal kind, non-member). They belong to the excluded class
	// index-literal-outside-column-domain (DESIGN F10-F12) and are never used by the core domain.
	OOD []string
}

func q(ss ...string) []string {
	out := make([]string, len(ss))
	for i, s := range ss {
		out[i] = "'" + s + "'"
	}
	return out
}

var strPool = q("", "0", "9", "A", "B", "a", "aB", "ab", "abc", "abd", "b", "ba", "z")
var strNear = q("a0", "aa", "ac", "Ab", "AB", "c", "bb", "zz", "1")

// Palette is the full type palette (C03's workload list).
var Palette = []ColType{
	{Name: "i8", Decl: "TINYINT", Kind: KInt, Pool: []string{"-128", "-1", "0", "1", "2", "3", "5", "127"}, Near: []string{"-127", "-2", "4", "6", "126"}, OOD: []string{"128", "300", "-129", "2.5"}},
	{Name: "u8", Decl: "TINYINT UNSIGNED", Kind: KInt, Pool: []string{"0", "1", "2", "3", "5", "200", "255"}, Near: []string{"4", "6", "199", "254"}, OOD: []string{"256", "-1", "2.5"}},
	{Name: "i16", Decl: "SMALLINT", Kind: KInt, Pool: []string{"-32768", "-1", "0", "1", "2", "3", "5", "32767"}, Near: []string{"-32767", "4", "32766"}, OOD: []string{"32768", "-40000", "1.5"}},
	{Name: "u16", Decl: "SMALLINT UNSIGNED", Kind: KInt, Pool: []string{"0", "1", "2", "3", "5", "65535"}, Near: []string{"4", "65534"}, OOD: []string{"65536", "-1", "0.5"}},
	{Name: "i24", Decl: "MEDIUMINT", Kind: KInt, Pool: []string{"-8388608", "-1", "0", "1", "2", "3", "8388607"}, Near: []string{"4", "8388606"}, OOD: []string{"8388608", "2.5"}},
	{Name: "u24", Decl: "MEDIUMINT UNSIGNED", Kind: KInt, Pool: []string{"0", "1", "2", "3", "16777215"}, Near: []string{"4", "16777214"}, OOD: []string{"16777216", "-1"}},
	{Name: "i32", Decl: "INT", Kind: KInt, Pool: []string{"-2147483648", "-1", "0", "1", "2", "3", "5", "7", "2147483647"}, Near: []string{"-2", "4", "6", "2147483646"}, OOD: []string{"2147483648", "-2147483649", "2.5"}},
	{Name: "u32", Decl: "INT UNSIGNED", Kind: KInt, Pool: []string{"0", "1", "2", "3", "5", "4294967295"}, Near: []string{"4", "4294967294"}, OOD: []string{"4294967296", "-1", "2.5"}},
	{Name: "i64", Decl: "BIGINT", Kind: KInt, Pool: []string{"-9223372036854775807", "-1", "0", "1", "2", "3", "5", "9223372036854775807"}, Near: []string{"-2", "4", "9223372036854775806"}, OOD: []string{"9223372036854775808", "2.5"}},
	{Name: "u64", Decl: "BIGINT UNSIGNED", Kind: KInt, Pool: []string{"0", "1", "2", "3", "9223372036854775807", "9223372036854775808", "18446744073709551615"}, Near: []string{"4", "18446744073709551614"}, OOD: []string{"-1", "2.5"}},
	{Name: "dec62", Decl: "DECIMAL(6,2)", Kind: KDecimal, Pool: []string{"-9999.99", "-1.50", "0.00", "0.01", "1.00", "1.50", "2.00", "2.25", "9999.99"}, Near: []string{"-0.01", "1.49", "1.51", "2", "3.00", "9999.98"}, OOD: []string{"10000", "1.505", "-10000.00"}},
	{Name: "f32", Decl: "FLOAT", Kind: KFloat, Pool: []string{"-2.75", "-1", "0", "0.5", "1", "1.25", "2", "3.5", "1048576"}, Near: []string{"0.25", "1.5", "3", "-3"}},
	{Name: "f64", Decl: "DOUBLE", Kind: KFloat, Pool: []string{"-2.75", "-1", "0", "0.5", "1", "1.25", "2", "3.5", "1e15"}, Near: []string{"0.25", "1.5", "3", "-3"}},
	{Name: "vcbin", Decl: "VARCHAR(8) COLLATE utf8mb4_0900_bin", Kind: KStrBin, Pool: strPool, Near: strNear, Prefixable: true},
	{Name: "chbin", Decl: "CHAR(8) COLLATE utf8mb4_0900_bin", Kind: KStrBin, Pool: strPool, Near: strNear, Prefixable: true},
	{Name: "vcaici", Decl: "VARCHAR(8) COLLATE utf8mb4_0900_ai_ci", Kind: KStrCI, Pool: strPool, Near: strNear, Prefixable: true},
	{Name: "vcgci", Decl: "VARCHAR(8) COLLATE utf8mb4_general_ci", Kind: KStrCI, Pool: strPool, Near: strNear, Prefixable: true},
	{Name: "vbin", Decl: "VARBINARY(8)", Kind: KBinary, Pool: strPool, Near: strNear, Prefixable: true},
	{Name: "date", Decl: "DATE", Kind: KDate, Pool: q("1000-01-01", "2019-12-31", "2020-01-01", "2020-01-02", "2020-02-29", "2021-06-15", "9999-12-31"), Near: q("2019-12-30", "2020-01-03", "2020-03-01", "2021-06-14"), OOD: []string{"'2020-01-01 10:00:00'", "20200101"}},
	{Name: "dtime", Decl: "DATETIME", Kind: KDatetime, Pool: q("2019-12-31 23:59:59", "2020-01-01 00:00:00", "2020-01-01 10:00:00", "2020-01-01 23:59:59", "2021-06-15 12:30:00", "9999-12-31 23:59:59"), Near: q("2020-01-01 00:00:01", "2020-01-01 09:59:59", "2020-01-02 00:00:00", "2021-06-15 12:29:59")},
	{Name: "time", Decl: "TIME", Kind: KTime, Pool: q("-01:00:00", "00:00:00", "00:00:01", "10:30:00", "23:59:59", "100:00:00"), Near: q("00:00:02", "10:29:59", "-00:00:01", "99:59:59")},
	{Name: "year", Decl: "YEAR", Kind: KYear, Pool: []string{"1901", "1999", "2000", "2020", "2021", "2155"}, Near: []string{"1902", "2001", "2019", "2154"}, OOD: []string{"1900", "2156", "99"}},
	{Name: "enum", Decl: "ENUM('a','b','c','d')", Kind: KEnum, Pool: q("a", "b", "c", "d"), Near: q("a", "d"), OOD: q("e", "")},
	{Name: "bit8", Decl: "BIT(8)", Kind: KBit, Pool: []string{"0", "1", "2", "5", "255"}, Near: []string{"3", "4", "254"}, OOD: []string{"256", "-1"}},
}

// TypeByName looks a palette entry up.
func TypeByName(name string) ColType {
	for _, t := range Palette {
		if t.Name == name {
			return t
		}
	}
	panic("g6alib: no type " + name)
}

// Types returns the palette entries with the given names.
func Types(names ...string) []ColType {
	out := make([]ColType, len(names))
	for i, n := range names {
		out[i] = TypeByName(n)
	}
	return out
}

// Val draws a stored value (SQL literal text) or NULL.
func (t ColType) Val(rnd *rand.Rand, nullPct int) string {
	if rnd.Intn(100) < nullPct {
		return "NULL"
	}
	return t.Pool[rnd.Intn(len(t.Pool))]
}

// Lit draws an in-domain literal of the column's own kind: mostly a stored value, sometimes a
// neighbour that is probably absent from the data. The second result names the literal class.
func (t ColType) Lit(rnd *rand.Rand) (string, string) {
	if len(t.Near) > 0 && rnd.Intn(4) == 0 {
		return t.Near[rnd.Intn(len(t.Near))], "near"
	}
	return t.Pool[rnd.Intn(len(t.Pool))], "pool"
}

// Col is one column of a generated table.
type Col struct {
	Name    string
	T       ColType
	NotNull bool
}

// Index is one index of a generated table.
type Index struct {
	Name   string
	Cols   []string
	Prefix []int // prefix length per column, 0 = whole column
	Unique bool
	Shape  string // pk1, pkN, unique, sec1, multi2, multi3, prefix
}

// Table is a generated table: an id column that identifies the row, typed columns, and indexes.
// Twin() is the index-free copy holding identical rows.
type Table struct {
	Name   string
	Cols   []Col // Cols[0] is always id INT NOT NULL
	PK     []string
	Idx    []Index
	Rows   [][]string // SQL literal texts, one per column
	NoKeys bool       // twin: no primary key, no indexes at all
}

// DDL renders CREATE TABLE.
func (t *Table) DDL() string {
	var parts []string
	for _, c := range t.Cols {
		d := c.Name + " " + c.T.Decl
		if c.NotNull {
			d += " NOT NULL"
		}
		parts = append(parts, d)
	}
	if !t.NoKeys {
		if len(t.PK) > 0 {
			parts = append(parts, "PRIMARY KEY ("+strings.Join(t.PK, ", ")+")")
		}
		for _, ix := range t.Idx {
			var cs []string
			for k, c := range ix.Cols {
				if ix.Prefix != nil && ix.Prefix[k] > 0 {
					cs = append(cs, fmt.Sprintf("%s(%d)", c, ix.Prefix[k]))
				} else {
					cs = append(cs, c)
				}
			}
			kw := "KEY"
			if ix.Unique {
				kw = "UNIQUE KEY"
			}
			parts = append(parts, fmt.Sprintf("%s %s (%s)", kw, ix.Name, strings.Join(cs, ", ")))
		}
	}
	return "CREATE TABLE " + t.Name + " (" + strings.Join(parts, ", ") + ")"
}

// Inserts renders the rows as INSERT statements (a few rows per statement).
func (t *Table) Inserts() []string {
	var out []string
	for i := 0; i < len(t.Rows); i += 8 {
		j := i + 8
		if j > len(t.Rows) {
			j = len(t.Rows)
		}
		var vs []string
		for _, r := range t.Rows[i:j] {
			vs = append(vs, "("+strings.Join(r, ", ")+")")
		}
		out = append(out, "INSERT INTO "+t.Name+" VALUES "+strings.Join(vs, ", "))
	}
	return out
}

// Setup is DDL followed by the inserts.
func (t *Table) Setup() []string { return append([]string{t.DDL()}, t.Inserts()...) }

// Twin returns the copy without primary key and indexes, holding identical rows.
func (t *Table) Twin(name string) *Table {
	c := *t
	c.Name = name
	c.NoKeys = true
	return &c
}

// Col looks a column up by name.
func (t *Table) Col(name string) Col {
	for _, c := range t.Cols {
		if c.Name == name {
			return c
		}
	}
	panic("g6alib: no column " + name)
}

// IndexedCols lists (column, shape of the first index whose leading columns include it) for columns
// that are part of some index or the primary key.
func (t *Table) IndexedCols() []string {
	seen := map[string]bool{}
	var out []string
	add := func(c string) {
		if !seen[c] {
			seen[c] = true
			out = append(out, c)
		}
	}
	for _, c := range t.PK {
		add(c)
	}
	for _, ix := range t.Idx {
		for _, c := range ix.Cols {
			add(c)
		}
	}
	return out
}

// IntType is the column type of id columns.
var IntType = TypeByName("i32")
