// Package g6blib holds the schema / data / typed-expression generators shared by the metamorphic
// query monitors C05, C06 and C07. Everything is driven by the *rand.Rand handed in, so a case is a
// pure function of its PRNG.
package g6blib

import (
	"fmt"
	"math/rand"
	"strings"
)

// Kind is the value kind of an expression.
type Kind int

const (
	KInt  Kind = iota // INT / BIGINT valued
	KDec              // DECIMAL(8,2) valued
	KStr              // string under utf8mb4_0900_bin
	KCI               // string under utf8mb4_0900_ai_ci (column derived)
	KDate             // DATE
	KJSON             // JSON
	KBool             // truth value
)

func (k Kind) String() string {
	return [...]string{"int", "dec", "str", "ci", "date", "json", "bool"}[k]
}

// Col is one table column.
type Col struct {
	Name     string
	Kind     Kind
	SQLType  string
	Nullable bool
	Indexed  bool // leading column of some index
}

// Table is a generated table with its rows (SQL literal text per cell).
type Table struct {
	Name    string
	Cols    []*Col // without the id column
	Indexes []string
	Rows    [][]string // Rows[i][0] is the id
}

// Schema is a set of tables plus the statements that create and fill them.
type Schema struct {
	Tables []*Table
}

// Setup renders the CREATE TABLE / INSERT statements.
func (s *Schema) Setup() []string {
	var out []string
	for _, t := range s.Tables {
		out = append(out, t.Setup()...)
	}
	return out
}

// WithoutRow returns a copy of the schema in which row ri of table ti is removed.
func (s *Schema) WithoutRow(ti, ri int) *Schema {
	out := &Schema{}
	for k, t := range s.Tables {
		if k != ti {
			out.Tables = append(out.Tables, t)
			continue
		}
		c := *t
		c.Rows = append(append([][]string{}, t.Rows[:ri]...), t.Rows[ri+1:]...)
		out.Tables = append(out.Tables, &c)
	}
	return out
}

// Setup renders the statements creating and filling one table.
func (t *Table) Setup() []string {
	var defs []string
	defs = append(defs, "id INT PRIMARY KEY")
	for _, c := range t.Cols {
		d := c.Name + " " + c.SQLType
		if !c.Nullable {
			d += " NOT NULL"
		}
		defs = append(defs, d)
	}
	defs = append(defs, t.Indexes...)
	out := []string{fmt.Sprintf("CREATE TABLE %s (%s)", t.Name, strings.Join(defs, ", "))}
	if len(t.Rows) > 0 {
		var rs []string
		for _, r := range t.Rows {
			rs = append(rs, "("+strings.Join(r, ", ")+")")
		}
		out = append(out, fmt.Sprintf("INSERT INTO %s VALUES %s", t.Name, strings.Join(rs, ", ")))
	}
	return out
}

// Col finds a column by name.
func (t *Table) Col(name string) *Col {
	for _, c := range t.Cols {
		if c.Name == name {
			return c
		}
	}
	return nil
}

// value pools: deliberately small and shared between tables so joins, IN lists and subqueries match.
var (
	PoolInt  = []string{"-1", "0", "1", "2", "3", "3", "5", "7", "10", "100"}
	PoolDec  = []string{"-1.50", "0.00", "1.00", "1.50", "2.00", "2.50", "3.00", "10.25", "100.00"}
	PoolStr  = []string{"''", "'a'", "'A'", "'b'", "'B'", "'ab'", "'abc'", "'a b'", "'xyz'", "'10'", "'b%'", "'é'"}
	PoolDate = []string{"'2020-01-01'", "'2020-02-29'", "'2019-12-31'", "'2021-06-15'", "'2000-01-01'", "'2020-01-02'"}
	PoolJSON = []string{`'{"a": 1}'`, `'{"a": 2, "b": [1, 2]}'`, `'[1, 2, 3]'`, `'1'`, `'"x"'`, `'{"a": null}'`, `'{"b": "x"}'`, `'[]'`}
)

// Pool returns the literal pool of a kind.
func Pool(k Kind) []string {
	switch k {
	case KInt:
		return PoolInt
	case KDec:
		return PoolDec
	case KStr, KCI:
		return PoolStr
	case KDate:
		return PoolDate
	case KJSON:
		return PoolJSON
	}
	return []string{"TRUE", "FALSE"}
}

// SchemaOpts tunes GenSchema.
type SchemaOpts struct {
	Tables    int  // number of tables (names t, u, v)
	NoCIIndex bool // never index the case-insensitive column
	NoCI      bool // no case-insensitive column at all
	NoJSON    bool
	MaxRows   int  // default 12
	NotNullA  bool // column a NOT NULL in every table
	NotNullB  bool // column b NOT NULL in every table
}

// GenSchema generates tables t, u, v… each with an INT primary key id and a random subset of the
// column palette, random secondary indexes and 0..MaxRows rows drawn from the shared pools.
func GenSchema(rnd *rand.Rand, o SchemaOpts) *Schema {
	if o.Tables == 0 {
		o.Tables = 2
	}
	if o.MaxRows == 0 {
		o.MaxRows = 12
	}
	names := []string{"t", "u", "v", "w"}
	s := &Schema{}
	for ti := 0; ti < o.Tables; ti++ {
		t := &Table{Name: names[ti]}
		add := func(name string, k Kind, typ string, nullable bool, pIdx float64) *Col {
			c := &Col{Name: name, Kind: k, SQLType: typ, Nullable: nullable}
			if rnd.Float64() < pIdx {
				c.Indexed = true
				t.Indexes = append(t.Indexes, fmt.Sprintf("KEY k%s (%s)", name, name))
			}
			t.Cols = append(t.Cols, c)
			return c
		}
		// a and b always exist (join / subquery keys)
		add("a", KInt, "INT", !o.NotNullA && true, 0.6)
		bType, bNull := []string{"INT", "BIGINT", "SMALLINT"}[rnd.Intn(3)], rnd.Intn(2) == 0
		add("b", KInt, bType, bNull && !o.NotNullB, 0.3)
		if rnd.Intn(4) > 0 {
			add("d", KDec, "DECIMAL(8,2)", true, 0.3)
		}
		if rnd.Intn(5) > 0 {
			add("s", KStr, "VARCHAR(20) COLLATE utf8mb4_0900_bin", true, 0.4)
		}
		if !o.NoCI && rnd.Intn(3) > 0 {
			p := 0.3
			if o.NoCIIndex {
				p = 0
			}
			add("c", KCI, "VARCHAR(20) COLLATE utf8mb4_0900_ai_ci", true, p)
		}
		if rnd.Intn(3) > 0 {
			add("dt", KDate, "DATE", true, 0.3)
		}
		if !o.NoJSON && rnd.Intn(3) == 0 {
			add("j", KJSON, "JSON", true, 0)
		}
		if rnd.Intn(5) == 0 {
			t.Indexes = append(t.Indexes, "KEY kab (a, b)")
			t.Col("a").Indexed = true
		}
		n := rnd.Intn(o.MaxRows + 1)
		if n < 3 && rnd.Intn(3) > 0 {
			n += 4
		}
		for i := 0; i < n; i++ {
			row := []string{fmt.Sprint(i + 1)}
			for _, c := range t.Cols {
				if c.Nullable && rnd.Intn(6) == 0 {
					row = append(row, "NULL")
					continue
				}
				p := Pool(c.Kind)
				row = append(row, p[rnd.Intn(len(p))])
			}
			t.Rows = append(t.Rows, row)
		}
		s.Tables = append(s.Tables, t)
	}
	return s
}

// ---------------------------------------------------------------------------------------------
// Expressions

// Expr is a node of the typed expression tree. Rendering is fully parenthesised.
type Expr struct {
	Op   string   // col, lit, bin, neg, func, cmp, isnull, istruth, between, inlist, like, not, and, or, xor, case, if, insub, exists, scalar, const
	Kind Kind     // result kind
	Name string   // column SQL / literal SQL / operator / function name
	Args []*Expr  // operands
	Neg  bool     // NOT variant of inlist/between/like/insub/exists/isnull/istruth
	Sub  *SubQ    // subquery operand
	Ref  *ColRef  // for Op == col
	Raw  []string // trailing raw arguments of a function (constants, INTERVAL …)
}

// SubQ is a one-column subquery over another table.
type SubQ struct {
	Table    *Table
	Alias    string
	Col      *Col   // selected column ("" for EXISTS → SELECT 1)
	Agg      string // aggregate for scalar subqueries (MAX/MIN/COUNT)
	Where    *Expr  // optional filter over the subquery's own columns
	Corr     *Expr  // optional correlation predicate (outer col = inner col)
	Distinct bool
}

// SQL renders the subquery.
func (q *SubQ) SQL() string {
	sel := "1"
	if q.Col != nil {
		sel = q.Alias + "." + q.Col.Name
	}
	if q.Agg != "" {
		if q.Agg == "COUNT" && q.Col == nil {
			sel = "COUNT(*)"
		} else {
			sel = q.Agg + "(" + sel + ")"
		}
	}
	if q.Distinct {
		sel = "DISTINCT " + sel
	}
	out := fmt.Sprintf("SELECT %s FROM %s %s", sel, q.Table.Name, q.Alias)
	var conds []string
	if q.Corr != nil {
		conds = append(conds, q.Corr.SQL())
	}
	if q.Where != nil {
		conds = append(conds, q.Where.SQL())
	}
	if len(conds) > 0 {
		out += " WHERE " + strings.Join(conds, " AND ")
	}
	return out
}

// ColRef is something the generator may reference like a column: a real column through an alias, or
// (for HAVING) a group key / aggregate expression.
type ColRef struct {
	SQL      string
	Kind     Kind
	Nullable bool
	Indexed  bool
	Table    *Table
	Alias    string
	Col      *Col
}

// Refs builds the column references of a table under an alias.
func Refs(t *Table, alias string) []*ColRef {
	out := []*ColRef{{SQL: alias + ".id", Kind: KInt, Indexed: true, Table: t, Alias: alias, Col: &Col{Name: "id", Kind: KInt, SQLType: "INT"}}}
	for _, c := range t.Cols {
		out = append(out, &ColRef{SQL: alias + "." + c.Name, Kind: c.Kind, Nullable: c.Nullable, Indexed: c.Indexed, Table: t, Alias: alias, Col: c})
	}
	return out
}

// SQL renders the expression.
func (e *Expr) SQL() string {
	not := ""
	if e.Neg {
		not = "NOT "
	}
	switch e.Op {
	case "col", "lit", "const":
		return e.Name
	case "bin", "cmp":
		return "(" + e.Args[0].SQL() + " " + e.Name + " " + e.Args[1].SQL() + ")"
	case "neg":
		return "(-" + e.Args[0].SQL() + ")"
	case "func":
		var as []string
		for _, a := range e.Args {
			as = append(as, a.SQL())
		}
		as = append(as, e.Raw...)
		return e.Name + "(" + strings.Join(as, ", ") + ")"
	case "dateadd":
		return "DATE_ADD(" + e.Args[0].SQL() + ", INTERVAL " + e.Raw[0] + " " + e.Raw[1] + ")"
	case "isnull":
		return "(" + e.Args[0].SQL() + " IS " + not + "NULL)"
	case "istruth":
		return "(" + e.Args[0].SQL() + " IS " + not + e.Name + ")"
	case "between":
		return "(" + e.Args[0].SQL() + " " + not + "BETWEEN " + e.Args[1].SQL() + " AND " + e.Args[2].SQL() + ")"
	case "inlist":
		var as []string
		for _, a := range e.Args[1:] {
			as = append(as, a.SQL())
		}
		return "(" + e.Args[0].SQL() + " " + not + "IN (" + strings.Join(as, ", ") + "))"
	case "like":
		return "(" + e.Args[0].SQL() + " " + not + "LIKE " + e.Args[1].SQL() + ")"
	case "tuplein":
		// Args: l1, l2, then pairs v11, v12, v21, v22, …
		var ts []string
		for i := 2; i+1 < len(e.Args); i += 2 {
			ts = append(ts, "("+e.Args[i].SQL()+", "+e.Args[i+1].SQL()+")")
		}
		return "((" + e.Args[0].SQL() + ", " + e.Args[1].SQL() + ") " + not + "IN (" + strings.Join(ts, ", ") + "))"
	case "not":
		return "(NOT " + e.Args[0].SQL() + ")"
	case "and", "or", "xor":
		var as []string
		for _, a := range e.Args {
			as = append(as, a.SQL())
		}
		return "(" + strings.Join(as, " "+strings.ToUpper(e.Op)+" ") + ")"
	case "case":
		// Args: cond1, val1, cond2, val2, ..., [else]
		var b strings.Builder
		b.WriteString("(CASE")
		i := 0
		for ; i+1 < len(e.Args); i += 2 {
			b.WriteString(" WHEN " + e.Args[i].SQL() + " THEN " + e.Args[i+1].SQL())
		}
		if i < len(e.Args) {
			b.WriteString(" ELSE " + e.Args[i].SQL())
		}
		b.WriteString(" END)")
		return b.String()
	case "insub":
		return "(" + e.Args[0].SQL() + " " + not + "IN (" + e.Sub.SQL() + "))"
	case "exists":
		return "(" + not + "EXISTS (" + e.Sub.SQL() + "))"
	case "scalar":
		return "(" + e.Sub.SQL() + ")"
	}
	panic("g6blib: unknown op " + e.Op)
}

// Walk visits every node (including subquery filters).
func (e *Expr) Walk(f func(*Expr)) {
	if e == nil {
		return
	}
	f(e)
	for _, a := range e.Args {
		a.Walk(f)
	}
	if e.Sub != nil {
		e.Sub.Where.Walk(f)
		e.Sub.Corr.Walk(f)
	}
}

// Map rebuilds the tree bottom-up: f receives a shallow copy of each node whose children are already
// mapped and returns the replacement.
func (e *Expr) Map(f func(*Expr) *Expr) *Expr {
	if e == nil {
		return nil
	}
	c := *e
	c.Args = make([]*Expr, len(e.Args))
	for i, a := range e.Args {
		c.Args[i] = a.Map(f)
	}
	if e.Sub != nil {
		s := *e.Sub
		s.Where = e.Sub.Where.Map(f)
		s.Corr = e.Sub.Corr.Map(f)
		c.Sub = &s
	}
	return f(&c)
}

// Shape is a literal-free skeleton of the expression (for evidence: distinct predicate shapes).
func (e *Expr) Shape() string {
	switch e.Op {
	case "col":
		idx := ""
		if e.Ref != nil && e.Ref.Indexed {
			idx = "i"
		}
		return "c" + idx + ":" + e.Kind.String()
	case "lit", "const":
		return "l"
	}
	var as []string
	for _, a := range e.Args {
		as = append(as, a.Shape())
	}
	n := e.Op
	if e.Op == "bin" || e.Op == "cmp" || e.Op == "func" || e.Op == "istruth" {
		n = e.Name
	}
	if e.Neg {
		n = "!" + n
	}
	if e.Op == "inlist" && len(as) > 3 {
		as = as[:3]
	}
	return n + "(" + strings.Join(as, ",") + ")"
}

// TopOp is a coarse name of the root operator.
func (e *Expr) TopOp() string {
	n := e.Op
	if e.Op == "cmp" || e.Op == "func" {
		n = e.Op + e.Name
	}
	if e.Neg {
		n = "not-" + n
	}
	return n
}

// ---------------------------------------------------------------------------------------------
// Generator

// Domain holds the switches that keep known-defective input classes (DESIGN §6, findings/*.md) out of
// a monitor's core domain; sub-generators inherit them.
type Domain struct {
	NoMixedInNum bool // never mix integer and decimal literals in one IN list
	NoFracOnInt  bool // never put a fractional literal into an IN list / comparison whose left side is an integer expression
	NoCIInList   bool // never generate IN (list) over a case-insensitive string
	NoNotInSub   bool // never generate NOT IN (subquery)
	// NoDecKeyOnIntIndex: in INT-vs-DECIMAL comparisons a bare indexed integer column is wrapped as (col + 0),
	// so a DECIMAL value never becomes the lookup key of an integer index.
	NoDecKeyOnIntIndex bool
	// NoFracEqOnIndexedDec: `=` / `<>` between a bare indexed DECIMAL column and a fractional literal is
	// generated with a range operator instead.
	NoFracEqOnIndexedDec bool
	// NoArithInListLeft: the left operand of an IN list contains no multiplication, modulo or unary minus
	// (operations that can produce a negative-zero DECIMAL).
	NoArithInListLeft bool
	// NoLikeOnCIFunc: LIKE over a case-insensitive string takes a bare column as its left operand.
	NoLikeOnCIFunc bool
	// NoNegOnDateFunc: no unary minus directly over YEAR()/MONTH()/DAYOFMONTH() (the engine fails with
	// "invalid type: int" wherever such an expression is evaluated).
	NoNegOnDateFunc bool
}

// Gen generates typed expressions over a scope of column references.
type Gen struct {
	Rnd        *rand.Rand
	Scope      []*ColRef
	Subs       []*Table // tables available to subqueries
	NoSubquery bool
	NoJSON     bool
	Domain
	subDepth int
	subAlias int
}

func (g *Gen) pick(k Kind) *ColRef {
	var c []*ColRef
	for _, r := range g.Scope {
		if r.Kind == k {
			c = append(c, r)
		}
	}
	if len(c) == 0 {
		return nil
	}
	return c[g.Rnd.Intn(len(c))]
}

func (g *Gen) has(k Kind) bool { return g.pick(k) != nil }

// Lit makes a literal of a kind from the pool (occasionally NULL).
func (g *Gen) Lit(k Kind) *Expr {
	if g.Rnd.Intn(25) == 0 {
		return &Expr{Op: "lit", Kind: k, Name: "NULL"}
	}
	p := Pool(k)
	v := p[g.Rnd.Intn(len(p))]
	if (k == KInt || k == KDec) && strings.HasPrefix(v, "-") {
		v = "(" + v + ")"
	}
	if k == KDate && g.Rnd.Intn(3) == 0 {
		v = "CAST(" + v + " AS DATE)"
	}
	if k == KJSON {
		v = "CAST(" + v + " AS JSON)"
	}
	return &Expr{Op: "lit", Kind: k, Name: v}
}

func (g *Gen) col(k Kind) *Expr {
	r := g.pick(k)
	if r == nil {
		return g.Lit(k)
	}
	return &Expr{Op: "col", Kind: k, Name: r.SQL, Ref: r}
}

// Value generates an expression of the given kind.
func (g *Gen) Value(k Kind, depth int) *Expr {
	r := g.Rnd
	if depth <= 0 || r.Intn(10) < 3 {
		if r.Intn(10) < 7 {
			return g.col(k)
		}
		return g.Lit(k)
	}
	// generic constructs available for every kind
	switch r.Intn(12) {
	case 0:
		return &Expr{Op: "func", Kind: k, Name: "COALESCE", Args: []*Expr{g.Value(k, depth-1), g.Value(k, depth-1)}}
	case 1:
		return &Expr{Op: "func", Kind: k, Name: "IFNULL", Args: []*Expr{g.Value(k, depth-1), g.Value(k, depth-1)}}
	case 2:
		if k != KJSON {
			return &Expr{Op: "func", Kind: k, Name: "IF", Args: []*Expr{g.Bool(depth - 1), g.Value(k, depth-1), g.Value(k, depth-1)}}
		}
	case 3:
		if k != KJSON {
			args := []*Expr{g.Bool(depth - 1), g.Value(k, depth-1)}
			if r.Intn(2) == 0 {
				args = append(args, g.Bool(depth-1), g.Value(k, depth-1))
			}
			if r.Intn(3) > 0 {
				args = append(args, g.Value(k, depth-1))
			}
			return &Expr{Op: "case", Kind: k, Args: args}
		}
	case 4:
		if k == KInt || k == KStr || k == KDec {
			return &Expr{Op: "func", Kind: k, Name: "NULLIF", Args: []*Expr{g.Value(k, depth-1), g.Value(k, depth-1)}}
		}
	}
	switch k {
	case KInt:
		switch r.Intn(12) {
		case 0, 1:
			return &Expr{Op: "bin", Kind: KInt, Name: "+", Args: []*Expr{g.Value(KInt, depth-1), g.Value(KInt, depth-1)}}
		case 2:
			return &Expr{Op: "bin", Kind: KInt, Name: "-", Args: []*Expr{g.Value(KInt, depth-1), g.Value(KInt, depth-1)}}
		case 3:
			return &Expr{Op: "bin", Kind: KInt, Name: "*", Args: []*Expr{g.Value(KInt, depth-1), g.smallInt()}}
		case 4:
			arg := g.Value(KInt, depth-1)
			if g.NoNegOnDateFunc && arg.Op == "func" && (arg.Name == "YEAR" || arg.Name == "MONTH" || arg.Name == "DAYOFMONTH") {
				return arg
			}
			return &Expr{Op: "neg", Kind: KInt, Args: []*Expr{arg}}
		case 5:
			return &Expr{Op: "func", Kind: KInt, Name: "ABS", Args: []*Expr{g.Value(KInt, depth-1)}}
		case 6:
			if g.has(KStr) {
				return &Expr{Op: "func", Kind: KInt, Name: []string{"LENGTH", "CHAR_LENGTH"}[r.Intn(2)], Args: []*Expr{g.Value(KStr, depth-1)}}
			}
		case 7:
			if g.has(KStr) {
				return &Expr{Op: "func", Kind: KInt, Name: "LOCATE", Args: []*Expr{g.Lit(KStr), g.Value(KStr, depth-1)}}
			}
		case 8:
			if g.has(KDate) {
				return &Expr{Op: "func", Kind: KInt, Name: []string{"YEAR", "MONTH", "DAYOFMONTH"}[r.Intn(3)], Args: []*Expr{g.Value(KDate, depth-1)}}
			}
		case 9:
			if g.has(KDate) {
				return &Expr{Op: "func", Kind: KInt, Name: "DATEDIFF", Args: []*Expr{g.Value(KDate, depth-1), g.Value(KDate, depth-1)}}
			}
		case 10:
			return &Expr{Op: "bin", Kind: KInt, Name: []string{"DIV", "%"}[r.Intn(2)], Args: []*Expr{g.Value(KInt, depth-1), g.Value(KInt, depth-1)}}
		case 11:
			if sq := g.scalarSub(KInt); sq != nil {
				return sq
			}
		}
	case KDec:
		switch r.Intn(6) {
		case 0:
			return &Expr{Op: "bin", Kind: KDec, Name: "+", Args: []*Expr{g.Value(KDec, depth-1), g.Value(KDec, depth-1)}}
		case 1:
			return &Expr{Op: "bin", Kind: KDec, Name: "-", Args: []*Expr{g.Value(KDec, depth-1), g.Value(KInt, depth-1)}}
		case 2:
			return &Expr{Op: "bin", Kind: KDec, Name: "*", Args: []*Expr{g.Value(KDec, depth-1), g.smallInt()}}
		case 3:
			return &Expr{Op: "func", Kind: KDec, Name: "ABS", Args: []*Expr{g.Value(KDec, depth-1)}}
		case 4:
			return &Expr{Op: "neg", Kind: KDec, Args: []*Expr{g.Value(KDec, depth-1)}}
		}
	case KStr, KCI:
		switch r.Intn(9) {
		case 0:
			return &Expr{Op: "func", Kind: k, Name: "CONCAT", Args: []*Expr{g.Value(k, depth-1), g.Value(k, depth-1)}}
		case 1:
			return &Expr{Op: "func", Kind: k, Name: []string{"UPPER", "LOWER"}[r.Intn(2)], Args: []*Expr{g.Value(k, depth-1)}}
		case 2:
			return &Expr{Op: "func", Kind: k, Name: "TRIM", Args: []*Expr{g.Value(k, depth-1)}}
		case 3:
			return &Expr{Op: "func", Kind: k, Name: "SUBSTRING", Args: []*Expr{g.Value(k, depth-1)}, Raw: []string{fmt.Sprint(1 + r.Intn(3)), fmt.Sprint(r.Intn(3))}}
		case 4:
			return &Expr{Op: "func", Kind: k, Name: "REPLACE", Args: []*Expr{g.Value(k, depth-1)}, Raw: []string{[]string{"'a'", "'b'", "'A'", "' '"}[r.Intn(4)], []string{"'x'", "''", "'ab'"}[r.Intn(3)]}}
		case 5:
			return &Expr{Op: "func", Kind: k, Name: []string{"LEFT", "RIGHT"}[r.Intn(2)], Args: []*Expr{g.Value(k, depth-1)}, Raw: []string{fmt.Sprint(r.Intn(3))}}
		case 6:
			return &Expr{Op: "func", Kind: k, Name: "REVERSE", Args: []*Expr{g.Value(k, depth-1)}}
		}
	case KDate:
		switch r.Intn(4) {
		case 0:
			return &Expr{Op: "dateadd", Kind: KDate, Args: []*Expr{g.dateOperand(depth - 1)}, Raw: []string{fmt.Sprint(r.Intn(70) - 10), []string{"DAY", "MONTH", "YEAR"}[r.Intn(3)]}}
		case 1:
			return &Expr{Op: "func", Kind: KDate, Name: "LAST_DAY", Args: []*Expr{g.dateOperand(depth - 1)}}
		}
	case KJSON:
		// JSON values are only consumed by the JSON predicates
	}
	return g.col(k)
}

// dateOperand: an operand of a date function that is certainly of DATE type (column or CAST literal
// or a nested date function), so the function's result type is DATE, not a string.
func (g *Gen) dateOperand(depth int) *Expr {
	if g.has(KDate) && g.Rnd.Intn(4) > 0 {
		if depth > 0 && g.Rnd.Intn(3) == 0 {
			return g.Value(KDate, depth)
		}
		return g.col(KDate)
	}
	p := PoolDate
	return &Expr{Op: "lit", Kind: KDate, Name: "CAST(" + p[g.Rnd.Intn(len(p))] + " AS DATE)"}
}

func (g *Gen) smallInt() *Expr {
	return &Expr{Op: "lit", Kind: KInt, Name: []string{"0", "1", "2", "3", "(-1)", "10"}[g.Rnd.Intn(6)]}
}

// cmpKinds are the kinds a comparison may be built on.
func (g *Gen) valueKind() Kind {
	ks := []Kind{KInt, KInt, KInt, KDec, KStr, KStr, KCI, KDate}
	for tries := 0; tries < 8; tries++ {
		k := ks[g.Rnd.Intn(len(ks))]
		if g.has(k) {
			return k
		}
	}
	return KInt
}

var cmpOps = []string{"=", "=", "<>", "<", "<=", ">", ">=", "<=>"}

// Bool generates a predicate.
func (g *Gen) Bool(depth int) *Expr {
	r := g.Rnd
	if depth > 0 && r.Intn(10) < 4 {
		switch r.Intn(10) {
		case 0, 1, 2:
			return &Expr{Op: "and", Kind: KBool, Args: []*Expr{g.Bool(depth - 1), g.Bool(depth - 1)}}
		case 3, 4, 5:
			return &Expr{Op: "or", Kind: KBool, Args: []*Expr{g.Bool(depth - 1), g.Bool(depth - 1)}}
		case 6, 7:
			inner := g.Bool(depth - 1)
			if r.Intn(4) == 0 {
				inner = &Expr{Op: "not", Kind: KBool, Args: []*Expr{inner}} // double negation
			}
			return &Expr{Op: "not", Kind: KBool, Args: []*Expr{inner}}
		case 8:
			return &Expr{Op: "xor", Kind: KBool, Args: []*Expr{g.Bool(depth - 1), g.Bool(depth - 1)}}
		case 9:
			return &Expr{Op: "istruth", Kind: KBool, Name: []string{"TRUE", "FALSE"}[r.Intn(2)], Neg: r.Intn(2) == 0, Args: []*Expr{g.Bool(depth - 1)}}
		}
	}
	return g.Atom(depth)
}

// Atom generates a non-connective predicate.
func (g *Gen) Atom(depth int) *Expr {
	r := g.Rnd
	vd := depth - 1
	if vd > 2 {
		vd = 2
	}
	switch r.Intn(20) {
	case 0, 1, 2, 3, 4, 5, 6:
		k := g.valueKind()
		l := g.Value(k, vd)
		op := cmpOps[r.Intn(len(cmpOps))]
		var rt *Expr
		switch {
		case k == KCI:
			// a case-insensitive operand is compared with a literal or with another expression over the
			// same column collation (never with a _bin column: illegal mix of collations)
			if r.Intn(2) == 0 {
				rt = g.Lit(KStr)
			} else {
				rt = g.Value(KCI, vd)
			}
		case (k == KInt || k == KDec) && r.Intn(8) == 0 && g.has(KInt+KDec-k):
			// cross numeric comparison INT vs DECIMAL between non-literal operands
			rt = g.col(KInt + KDec - k)
			if g.NoDecKeyOnIntIndex {
				l, rt = g.noIntIndex(l), g.noIntIndex(rt)
			}
		case r.Intn(2) == 0:
			rt = g.Lit(k)
		default:
			rt = g.Value(k, vd)
		}
		if g.NoFracEqOnIndexedDec && (op == "=" || op == "<>") && (fracOnIndexedDec(l, rt) || fracOnIndexedDec(rt, l)) {
			op = []string{"<", "<=", ">", ">="}[r.Intn(4)]
		}
		if r.Intn(4) == 0 {
			l, rt = rt, l
		}
		return &Expr{Op: "cmp", Kind: KBool, Name: op, Args: []*Expr{l, rt}}
	case 7:
		k := []Kind{KInt, KDec, KStr, KCI, KDate, KJSON}[r.Intn(6)]
		if !g.has(k) || (k == KJSON && g.NoJSON) {
			k = KInt
		}
		return &Expr{Op: "isnull", Kind: KBool, Neg: r.Intn(2) == 0, Args: []*Expr{g.Value(k, vd)}}
	case 8, 9:
		k := g.valueKind()
		lk := k
		if k == KCI {
			lk = KStr
		}
		var lo, hi *Expr
		if r.Intn(3) > 0 {
			lo, hi = g.Lit(lk), g.Lit(lk)
		} else {
			lo, hi = g.Value(lk, vd), g.Value(lk, vd)
			if k == KCI {
				lo, hi = g.Lit(KStr), g.Lit(KStr)
			}
		}
		return &Expr{Op: "between", Kind: KBool, Neg: r.Intn(4) == 0, Args: []*Expr{g.Value(k, vd), lo, hi}}
	case 10, 11, 12:
		k := g.valueKind()
		if k == KCI && g.NoCIInList {
			k = KStr
		}
		left := g.Value(k, vd)
		if g.NoArithInListLeft && CanMakeNegZero(left) {
			left = g.col(k)
		}
		return g.InList(k, left, 1+r.Intn(5))
	case 13:
		k := KStr
		if g.has(KCI) && r.Intn(3) == 0 {
			k = KCI
		}
		if !g.has(k) {
			return g.Atom(depth)
		}
		likeLeft := g.Value(k, vd)
		if k == KCI && g.NoLikeOnCIFunc {
			likeLeft = g.col(k)
		}
		pats := []string{"'a%'", "'%b'", "'%'", "'_'", "'a_'", "'%a%'", "'A%'", "'ab'", "''", "'b\\%'", "'%b%'", "'__%'"}
		return &Expr{Op: "like", Kind: KBool, Neg: r.Intn(4) == 0, Args: []*Expr{likeLeft, {Op: "lit", Kind: KStr, Name: pats[r.Intn(len(pats))]}}}
	case 14:
		// constant sub-expressions (simplifyFilters)
		c := []string{"TRUE", "FALSE", "NULL", "(1 = 1)", "(1 = 0)", "(NULL = 1)", "(2 > 1)", "(NULL IS NULL)"}[r.Intn(8)]
		return &Expr{Op: "const", Kind: KBool, Name: c}
	case 15:
		if !g.NoJSON && g.has(KJSON) {
			j := g.col(KJSON)
			switch r.Intn(4) {
			case 0:
				return &Expr{Op: "cmp", Kind: KBool, Name: cmpOps[r.Intn(len(cmpOps))], Args: []*Expr{
					{Op: "func", Kind: KJSON, Name: "JSON_EXTRACT", Args: []*Expr{j}, Raw: []string{[]string{"'$.a'", "'$.b'", "'$[0]'", "'$.b[1]'"}[r.Intn(4)]}},
					{Op: "lit", Kind: KInt, Name: []string{"1", "2", "3"}[r.Intn(3)]}}}
			case 1:
				return &Expr{Op: "func", Kind: KBool, Name: "JSON_CONTAINS", Args: []*Expr{j}, Raw: []string{[]string{"'1'", "'2'", "'[1, 2]'", "'{\"a\": 1}'", "'\"x\"'"}[r.Intn(5)]}}
			case 2:
				return &Expr{Op: "isnull", Kind: KBool, Neg: r.Intn(2) == 0, Args: []*Expr{
					{Op: "func", Kind: KJSON, Name: "JSON_EXTRACT", Args: []*Expr{j}, Raw: []string{[]string{"'$.a'", "'$.b'", "'$[1]'"}[r.Intn(3)]}}}}
			case 3:
				return &Expr{Op: "cmp", Kind: KBool, Name: cmpOps[r.Intn(len(cmpOps))], Args: []*Expr{
					{Op: "func", Kind: KInt, Name: "JSON_LENGTH", Args: []*Expr{j}}, g.smallInt()}}
			}
		}
		return g.Atom(depth)
	case 16, 17:
		if e := g.InSub(vd); e != nil {
			return e
		}
		return g.Atom(depth)
	case 18:
		if e := g.Exists(); e != nil {
			return e
		}
		return g.Atom(depth)
	case 19:
		// CASE / IF producing a truth value
		if r.Intn(2) == 0 {
			return &Expr{Op: "func", Kind: KBool, Name: "IF", Args: []*Expr{g.Bool(depth - 1), g.Bool(depth - 1), g.Bool(depth - 1)}}
		}
		args := []*Expr{g.Bool(depth - 1), g.Bool(depth - 1)}
		if r.Intn(2) == 0 {
			args = append(args, g.Bool(depth-1))
		}
		return &Expr{Op: "case", Kind: KBool, Args: args}
	}
	return g.Atom(depth)
}

// InList builds `left [NOT] IN (v1..vn)`; elements are pool literals (with duplicates / NULL), and —
// unless switched off — occasionally a literal of the other numeric kind.
func (g *Gen) InList(k Kind, left *Expr, n int) *Expr {
	r := g.Rnd
	lk := k
	if k == KCI {
		lk = KStr
	}
	args := []*Expr{left}
	for i := 0; i < n; i++ {
		ek := lk
		if (lk == KInt || lk == KDec) && !g.NoMixedInNum && r.Intn(6) == 0 {
			if !(lk == KInt && g.NoFracOnInt) {
				ek = KInt + KDec - lk
			}
		}
		args = append(args, g.Lit(ek))
	}
	return &Expr{Op: "inlist", Kind: KBool, Neg: r.Intn(4) == 0, Args: args}
}

func (g *Gen) newAlias() string {
	g.subAlias++
	return fmt.Sprintf("s%d", g.subAlias)
}

// noIntIndex wraps a bare indexed integer column as (col + 0).
func (g *Gen) noIntIndex(e *Expr) *Expr {
	if e.Op == "col" && e.Kind == KInt && e.Ref != nil && e.Ref.Indexed {
		return &Expr{Op: "bin", Kind: KInt, Name: "+", Args: []*Expr{e, {Op: "lit", Kind: KInt, Name: "0"}}}
	}
	return e
}

// CanMakeNegZero reports whether the expression contains *, % or unary minus.
func CanMakeNegZero(e *Expr) bool {
	found := false
	e.Walk(func(x *Expr) {
		if x.Op == "neg" || (x.Op == "bin" && (x.Name == "*" || x.Name == "%")) {
			found = true
		}
	})
	return found
}

// IsFracLit reports whether the expression is a decimal literal with a non-zero fraction.
func IsFracLit(e *Expr) bool {
	if e.Op != "lit" || !strings.Contains(e.Name, ".") {
		return false
	}
	f := strings.TrimRight(strings.Trim(e.Name, "()"), "0")
	return !strings.HasSuffix(f, ".")
}

func fracOnIndexedDec(col, lit *Expr) bool {
	return col.Op == "col" && col.Kind == KDec && col.Ref != nil && col.Ref.Indexed && IsFracLit(lit)
}

// subFilter is a simple filter over the subquery table's own columns.
func (g *Gen) subFilter(t *Table, alias string) *Expr {
	if g.Rnd.Intn(2) == 0 {
		return nil
	}
	sg := &Gen{Rnd: g.Rnd, Scope: Refs(t, alias), NoSubquery: true, NoJSON: true, Domain: g.Domain}
	return sg.Bool(1)
}

// InSub builds `x [NOT] IN (SELECT col FROM u [WHERE f])` over a column of the same kind.
func (g *Gen) InSub(vd int) *Expr {
	if g.NoSubquery || len(g.Subs) == 0 || g.subDepth > 0 {
		return nil
	}
	t := g.Subs[g.Rnd.Intn(len(g.Subs))]
	var cands []*Col
	for _, c := range t.Cols {
		if (c.Kind == KInt || c.Kind == KStr || c.Kind == KDec || c.Kind == KDate) && g.has(c.Kind) {
			cands = append(cands, c)
		}
	}
	if len(cands) == 0 {
		return nil
	}
	c := cands[g.Rnd.Intn(len(cands))]
	if g.Rnd.Intn(3) == 0 {
		c = t.Col("a")
	}
	alias := g.newAlias()
	neg := g.Rnd.Intn(3) == 0
	if g.NoNotInSub {
		neg = false
	}
	var left *Expr
	if g.Rnd.Intn(3) > 0 {
		left = g.col(c.Kind)
	} else {
		left = g.Value(c.Kind, vd)
	}
	return &Expr{Op: "insub", Kind: KBool, Neg: neg, Args: []*Expr{left},
		Sub: &SubQ{Table: t, Alias: alias, Col: c, Where: g.subFilter(t, alias)}}
}

// Exists builds a correlated `[NOT] EXISTS (SELECT 1 FROM u x WHERE x.col = outer.col [AND f])`.
func (g *Gen) Exists() *Expr {
	if g.NoSubquery || len(g.Subs) == 0 || g.subDepth > 0 {
		return nil
	}
	t := g.Subs[g.Rnd.Intn(len(g.Subs))]
	alias := g.newAlias()
	var cands []*Col
	for _, c := range t.Cols {
		if (c.Kind == KInt || c.Kind == KStr || c.Kind == KDate) && g.has(c.Kind) {
			cands = append(cands, c)
		}
	}
	if len(cands) == 0 {
		return nil
	}
	c := cands[g.Rnd.Intn(len(cands))]
	outer := g.col(c.Kind)
	op := "="
	if g.Rnd.Intn(5) == 0 {
		op = []string{"<", ">", "<=>"}[g.Rnd.Intn(3)]
	}
	corr := &Expr{Op: "cmp", Kind: KBool, Name: op, Args: []*Expr{
		{Op: "col", Kind: c.Kind, Name: alias + "." + c.Name, Ref: &ColRef{SQL: alias + "." + c.Name, Kind: c.Kind, Nullable: c.Nullable, Indexed: c.Indexed, Table: t, Alias: alias, Col: c}}, outer}}
	return &Expr{Op: "exists", Kind: KBool, Neg: g.Rnd.Intn(3) == 0, Sub: &SubQ{Table: t, Alias: alias, Corr: corr, Where: g.subFilter(t, alias)}}
}

// scalarSub builds an uncorrelated aggregate scalar subquery (exactly one row).
func (g *Gen) scalarSub(k Kind) *Expr {
	if g.NoSubquery || len(g.Subs) == 0 || g.subDepth > 0 || k != KInt {
		return nil
	}
	t := g.Subs[g.Rnd.Intn(len(g.Subs))]
	alias := g.newAlias()
	agg := []string{"MAX", "MIN", "COUNT"}[g.Rnd.Intn(3)]
	return &Expr{Op: "scalar", Kind: KInt, Sub: &SubQ{Table: t, Alias: alias, Col: t.Col("a"), Agg: agg, Where: g.subFilter(t, alias)}}
}
