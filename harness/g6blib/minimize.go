package g6blib

// Minimize shrinks a failing expression: it repeatedly tries to replace a node by one of its operands of
// the same kind, by a constant, or to drop list elements / branches, keeping a change whenever fails()
// still reports the failure. Deterministic; bounded by maxTrials calls of fails.
func Minimize(p *Expr, fails func(*Expr) bool, maxTrials int) *Expr {
	trials := 0
	cur := p
	for changed := true; changed && trials < maxTrials; {
		changed = false
		n := cur.Count()
		for idx := 0; idx < n && trials < maxTrials; idx++ {
			node := cur.At(idx)
			if node == nil {
				break
			}
			for _, cand := range candidates(node) {
				if trials >= maxTrials {
					break
				}
				next := cur.ReplaceAt(idx, cand)
				if next.SQL() == cur.SQL() {
					continue
				}
				trials++
				if fails(next) {
					cur = next
					changed = true
					n = cur.Count()
					break
				}
			}
		}
	}
	return cur
}

// Count is the number of nodes reachable through Args and subquery filters (preorder numbering).
func (e *Expr) Count() int {
	n := 0
	e.Walk(func(*Expr) { n++ })
	return n
}

// At returns the idx-th node in Walk order.
func (e *Expr) At(idx int) *Expr {
	var out *Expr
	i := 0
	e.Walk(func(x *Expr) {
		if i == idx {
			out = x
		}
		i++
	})
	return out
}

// ReplaceAt returns a copy of the tree with the idx-th node (Walk order) replaced.
func (e *Expr) ReplaceAt(idx int, repl *Expr) *Expr {
	i := -1
	var rec func(x *Expr) *Expr
	rec = func(x *Expr) *Expr {
		if x == nil {
			return nil
		}
		i++
		if i == idx {
			// skip the numbering of the replaced subtree
			i += x.Count() - 1
			return repl
		}
		c := *x
		c.Args = make([]*Expr, len(x.Args))
		for k, a := range x.Args {
			c.Args[k] = rec(a)
		}
		if x.Sub != nil {
			s := *x.Sub
			s.Where = rec(x.Sub.Where)
			s.Corr = rec(x.Sub.Corr)
			c.Sub = &s
		}
		return &c
	}
	return rec(e)
}

func candidates(n *Expr) []*Expr {
	var out []*Expr
	// operands of the same kind (KCI and KStr are interchangeable for this purpose only when equal)
	for _, a := range n.Args {
		if a.Kind == n.Kind {
			out = append(out, a)
		}
	}
	switch n.Op {
	case "inlist":
		if len(n.Args) > 2 {
			for k := 1; k < len(n.Args); k++ {
				c := *n
				c.Args = append(append([]*Expr{}, n.Args[:k]...), n.Args[k+1:]...)
				out = append(out, &c)
			}
		}
	case "tuplein":
		if len(n.Args) > 4 {
			for k := 2; k+1 < len(n.Args); k += 2 {
				c := *n
				c.Args = append(append([]*Expr{}, n.Args[:k]...), n.Args[k+2:]...)
				out = append(out, &c)
			}
		}
	case "case":
		if len(n.Args) > 2 {
			c := *n
			c.Args = append([]*Expr{}, n.Args[2:]...)
			if len(c.Args) >= 2 {
				out = append(out, &c)
			}
			c2 := *n
			c2.Args = append([]*Expr{}, n.Args[:2]...)
			out = append(out, &c2)
		}
	case "insub", "exists", "scalar":
		if n.Sub != nil && n.Sub.Where != nil {
			c := *n
			s := *n.Sub
			s.Where = nil
			c.Sub = &s
			out = append(out, &c)
		}
	}
	if n.Neg {
		c := *n
		c.Neg = false
		out = append(out, &c)
	}
	if n.Op == "lit" || n.Op == "const" {
		return out
	}
	switch n.Kind {
	case KBool:
		for _, v := range []string{"TRUE", "FALSE", "NULL"} {
			out = append(out, &Expr{Op: "const", Kind: KBool, Name: v})
		}
	default:
		if n.Op != "col" {
			p := Pool(n.Kind)
			lit := p[0]
			if len(p) > 2 {
				lit = p[2]
			}
			if n.Kind == KJSON {
				lit = "CAST(" + lit + " AS JSON)"
			}
			out = append(out, &Expr{Op: "lit", Kind: n.Kind, Name: lit}, &Expr{Op: "lit", Kind: n.Kind, Name: "NULL"})
		}
	}
	return out
}
