package g6blib

import (
	"bufio"
	"fmt"
	"os"
	"strings"

	"verif/harness/core"
)

// ProbeMain is a debugging aid shared by the group's monitors: `<bin> probe < file.sql` runs the
// statements (one per line; lines starting with "--" are comments, "plan <q>" prints the plan) on one
// fresh engine and prints canonical sorted results. It is never used by a registered command.
func ProbeMain() {
	e := core.NewEng("d")
	defer e.Close()
	s := e.NewSess()
	sc := bufio.NewScanner(os.Stdin)
	sc.Buffer(make([]byte, 1<<20), 1<<20)
	for sc.Scan() {
		q := strings.TrimSpace(sc.Text())
		if q == "" || strings.HasPrefix(q, "--") {
			continue
		}
		q = strings.TrimSuffix(q, ";")
		if strings.HasPrefix(q, "plan ") {
			fmt.Printf("PLAN %s\n%s\n", q[5:], s.Plan(q[5:]))
			continue
		}
		res := s.Exec(q)
		switch {
		case res.Panic != nil:
			fmt.Printf("%s\n  => PANIC %s at %s\n", q, res.Panic.Value, res.Panic.Site)
			if os.Getenv("VERIF_DEBUG") != "" {
				fmt.Println(res.Panic.Stack)
			}
		case res.TimedOut:
			fmt.Printf("%s\n  => TIMEOUT\n", q)
		case res.Err != nil:
			fmt.Printf("%s\n  => ERROR[%s] %v\n", q, res.ErrClass(), res.Err)
		default:
			if _, ok := res.Ok(); ok {
				continue
			}
			var ts []string
			for _, c := range res.Schema {
				ts = append(ts, c.Name+":"+c.Type.String())
			}
			fmt.Printf("%s\n  => [%s] %d rows: %s\n", q, strings.Join(ts, ", "), len(res.Rows), strings.Join(core.SortedRows(res.Rows), " ; "))
		}
	}
}
