package g6blib

// Rewrite rules that SQL defines as equivalences (three-valued): used by C06.

// RewriteInLists replaces every `x [NOT] IN (v1, …, vn)` by `[NOT] (x = v1 OR … OR x = vn)`.
// (x IN list: TRUE if some x = vi is TRUE, else NULL if some is NULL, else FALSE — exactly Kleene OR.)
func RewriteInLists(e *Expr) (*Expr, int) {
	n := 0
	out := e.Map(func(x *Expr) *Expr {
		if x.Op == "tuplein" {
			n++
			var terms []*Expr
			for i := 2; i+1 < len(x.Args); i += 2 {
				terms = append(terms, &Expr{Op: "and", Kind: KBool, Args: []*Expr{
					{Op: "cmp", Kind: KBool, Name: "=", Args: []*Expr{x.Args[0], x.Args[i]}},
					{Op: "cmp", Kind: KBool, Name: "=", Args: []*Expr{x.Args[1], x.Args[i+1]}}}})
			}
			var r *Expr
			if len(terms) == 1 {
				r = terms[0]
			} else {
				r = &Expr{Op: "or", Kind: KBool, Args: terms}
			}
			if x.Neg {
				r = &Expr{Op: "not", Kind: KBool, Args: []*Expr{r}}
			}
			return r
		}
		if x.Op != "inlist" {
			return x
		}
		n++
		var terms []*Expr
		for _, v := range x.Args[1:] {
			terms = append(terms, &Expr{Op: "cmp", Kind: KBool, Name: "=", Args: []*Expr{x.Args[0], v}})
		}
		var r *Expr
		if len(terms) == 1 {
			r = terms[0]
		} else {
			r = &Expr{Op: "or", Kind: KBool, Args: terms}
		}
		if x.Neg {
			r = &Expr{Op: "not", Kind: KBool, Args: []*Expr{r}}
		}
		return r
	})
	return out, n
}

// RewriteBetweens replaces every `x [NOT] BETWEEN a AND b` by `[NOT] (x >= a AND x <= b)`.
func RewriteBetweens(e *Expr) (*Expr, int) {
	n := 0
	out := e.Map(func(x *Expr) *Expr {
		if x.Op != "between" {
			return x
		}
		n++
		r := &Expr{Op: "and", Kind: KBool, Args: []*Expr{
			{Op: "cmp", Kind: KBool, Name: ">=", Args: []*Expr{x.Args[0], x.Args[1]}},
			{Op: "cmp", Kind: KBool, Name: "<=", Args: []*Expr{x.Args[0], x.Args[2]}}}}
		if x.Neg {
			return &Expr{Op: "not", Kind: KBool, Args: []*Expr{r}}
		}
		return r
	})
	return out, n
}

// Has reports whether the tree contains a node with the given Op.
func (e *Expr) Has(op string) bool {
	found := false
	e.Walk(func(x *Expr) {
		if x.Op == op {
			found = true
		}
	})
	return found
}

// SubstituteCol replaces every column reference whose SQL text is name by repl.
func (e *Expr) SubstituteCol(name string, repl *Expr) *Expr {
	return e.Map(func(x *Expr) *Expr {
		if x.Op == "col" && x.Name == name {
			return repl
		}
		return x
	})
}
