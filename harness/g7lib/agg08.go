package g7lib

import (
	"context"
	"fmt"
	"math/big"
	"math/rand"
	"sort"
	"strings"

	"github.com/dolthub/go-mysql-server/sql"
)

// ---- C08: reference implementations of aggregate and window functions ----
//
// One table w(id INT PRIMARY KEY, p INT, o INT, k INT NOT NULL, v INT, d DECIMAL(8,2), s VARCHAR(8)
// binary collation): p is the partition / group key (NULLs form one group), o a nullable ordering key
// with ties, k a NOT NULL ordering key (RANGE frames), v / d / s the inputs.

// Cell is one expected output value together with the rule it is compared by.
type Cell struct {
	Mode   string   // exact | approx | pieces (unordered GROUP_CONCAT) | jsonset (unordered JSON_ARRAYAGG) | jsonseq
	V      Val      // exact / approx
	Pieces []string // pieces / jsonset / jsonseq: element keys; nil = SQL NULL
	Null   bool     // pieces / json modes: the whole value is NULL
	Sep    string   // pieces: separator
}

func (c Cell) String() string {
	switch c.Mode {
	case "pieces", "jsonset", "jsonseq":
		if c.Null {
			return "NULL"
		}
		return c.Mode + "{" + strings.Join(c.Pieces, ",") + "}"
	}
	return c.V.Key()
}

// Col08 is one output column of a C08 query: its SQL text, a label for evidence (function x frame
// shape) and the function that computes the expected cell for a group / for a row of a partition.
type Col08 struct {
	SQL   string
	Label string
	// group mode: rows of the group -> cell; window mode: unused
	Group func(rows [][]Val) Cell
	// window mode: computes the cell of every row id of the table
	Window func(rows [][]Val) map[string]Cell
}

// Query08 is one generated C08 statement with its expected result keyed by the leading key columns.
type Query08 struct {
	SQL      string
	Kind     string // group | window
	KeyCols  int
	Labels   []string
	Expected map[string][]Cell // key -> cells of the non-key columns
	Keys     []string          // expected keys in a fixed order (for witnesses)
	// known-finding input classes present in the statement (domain bookkeeping for evidence)
	Notes []string
}

const (
	wID = iota
	wP
	wO
	wK
	wV
	wD
	wS
)

var wCols = []string{"id", "p", "o", "k", "v", "d", "s"}

func wColIdx(name string) int {
	for i, c := range wCols {
		if c == name {
			return i
		}
	}
	panic("no column " + name)
}

// GenTable08 generates the table: 0..12 rows, partitions of size 0..9, NULLs, ties, duplicates.
func GenTable08(rnd *rand.Rand) *Schema {
	t := &Table{Name: "w", Cols: []ColDef{
		{Name: "id", T: TInt, NotNull: true}, {Name: "p", T: TInt}, {Name: "o", T: TInt}, {Name: "k", T: TInt, NotNull: true},
		{Name: "v", T: TInt}, {Name: "d", T: TDec}, {Name: "s", T: TStr}}}
	keys := ""
	if rnd.Intn(3) == 0 {
		keys += ", KEY kp (p)"
	}
	if rnd.Intn(4) == 0 {
		keys += ", KEY ko (o, id)"
	}
	sch := &Schema{DB: &DB{Tables: map[string]*Table{"w": t}, Order: []string{"w"}}}
	sch.Setup = append(sch.Setup, "CREATE TABLE w (id INT NOT NULL, p INT, o INT, k INT NOT NULL, v INT, d DECIMAL(8,2), s VARCHAR(8) COLLATE utf8mb4_0900_bin, PRIMARY KEY (id)"+keys+")")
	n := 0
	switch x := rnd.Intn(12); {
	case x == 0:
		n = 0
	case x == 1:
		n = 1
	default:
		n = 2 + rnd.Intn(11)
	}
	nparts := 1 + rnd.Intn(3)
	ints := []int64{0, 1, 1, 2, 3, 3, 5, 7, -1, -4, 10}
	decs := []string{"0.00", "1.00", "1.50", "2.25", "-1.50", "0.05", "1.10", "10.00", "3.00"}
	strs := []string{"a", "A", "b", "B", "ab", "", "z", "x y", "0", "10"}
	perm := rnd.Perm(40)
	for i := 0; i < n; i++ {
		row := make([]Val, 7)
		row[wID] = IntVal(int64(perm[i] - 5))
		if rnd.Intn(100) < 15 {
			row[wP] = Null
		} else {
			row[wP] = IntVal(int64(rnd.Intn(nparts)))
		}
		if rnd.Intn(100) < 20 {
			row[wO] = Null
		} else {
			row[wO] = IntVal(int64(rnd.Intn(4)))
		}
		row[wK] = IntVal(int64(rnd.Intn(7) - 1))
		if rnd.Intn(100) < 22 {
			row[wV] = Null
		} else {
			row[wV] = IntVal(ints[rnd.Intn(len(ints))])
		}
		if rnd.Intn(100) < 22 {
			row[wD] = Null
		} else {
			row[wD] = DecVal(decs[rnd.Intn(len(decs))])
		}
		if rnd.Intn(100) < 22 {
			row[wS] = Null
		} else {
			row[wS] = StrVal(strs[rnd.Intn(len(strs))])
		}
		var lits []string
		for _, v := range row {
			lits = append(lits, strings.Trim(litSQL(v), "()"))
		}
		sch.Setup = append(sch.Setup, "INSERT INTO w VALUES ("+strings.Join(lits, ", ")+")")
		t.Rows = append(t.Rows, row)
	}
	return sch
}

// ---- plain aggregates ----

func nonNull(rows [][]Val, col int) []Val {
	var out []Val
	for _, r := range rows {
		if !r[col].IsNull() {
			out = append(out, r[col])
		}
	}
	return out
}

func distinctVals(vals []Val) []Val {
	seen := map[string]bool{}
	var out []Val
	for _, v := range vals {
		if k := v.Key(); !seen[k] {
			seen[k] = true
			out = append(out, v)
		}
	}
	return out
}

var two64 = new(big.Int).Lsh(big.NewInt(1), 64)

// asUint64 is the two's complement image of an integer value.
func asUint64(v Val) uint64 {
	i := new(big.Int).Set(v.N.Num())
	if i.Sign() < 0 {
		i.Add(i, two64)
	}
	return i.Uint64()
}

func uintVal(u uint64) Val { return RatVal(new(big.Rat).SetInt(new(big.Int).SetUint64(u))) }

// BitAgg computes BIT_AND / BIT_OR / BIT_XOR over the non-NULL integer inputs (64-bit unsigned).
func BitAgg(fn string, vals []Val) Val {
	var acc uint64
	if fn == "BIT_AND" {
		acc = ^uint64(0)
	}
	for _, v := range vals {
		u := asUint64(v)
		switch fn {
		case "BIT_AND":
			acc &= u
		case "BIT_OR":
			acc |= u
		case "BIT_XOR":
			acc ^= u
		}
	}
	return uintVal(acc)
}

func textOf(v Val) string {
	if v.K == KStr {
		return v.S
	}
	return ratText(v.N)
}

// ---- window machinery ----

// WOrder is one window ORDER BY key.
type WOrder struct {
	Col  string
	Desc bool
}

// Bound is one frame bound.
type Bound struct {
	Kind string // UP | P | C | F | UF
	N    int
}

func (b Bound) SQL() string {
	switch b.Kind {
	case "UP":
		return "UNBOUNDED PRECEDING"
	case "UF":
		return "UNBOUNDED FOLLOWING"
	case "C":
		return "CURRENT ROW"
	case "P":
		return fmt.Sprintf("%d PRECEDING", b.N)
	}
	return fmt.Sprintf("%d FOLLOWING", b.N)
}

// Frame is an explicit window frame.
type Frame struct {
	Unit       string // ROWS | RANGE
	Start, End Bound
}

// Window is an OVER clause.
type Window struct {
	Part  string // "" or a column
	Order []WOrder
	Frame *Frame
}

func (w Window) SQL() string {
	var parts []string
	if w.Part != "" {
		parts = append(parts, "PARTITION BY "+w.Part)
	}
	if len(w.Order) > 0 {
		var ks []string
		for _, k := range w.Order {
			s := k.Col
			if k.Desc {
				s += " DESC"
			}
			ks = append(ks, s)
		}
		parts = append(parts, "ORDER BY "+strings.Join(ks, ", "))
	}
	if w.Frame != nil {
		parts = append(parts, w.Frame.Unit+" BETWEEN "+w.Frame.Start.SQL()+" AND "+w.Frame.End.SQL())
	}
	return "OVER (" + strings.Join(parts, " ") + ")"
}

// Shape names the frame shape for evidence.
func (w Window) Shape() string {
	s := ""
	if w.Part != "" {
		s += "part,"
	}
	if len(w.Order) > 0 {
		s += "order,"
	}
	if w.Frame == nil {
		return s + "default-frame"
	}
	return s + w.Frame.Unit + ":" + w.Frame.Start.Kind + ".." + w.Frame.End.Kind
}

// partitions splits the rows by the partition column and sorts each partition on the order keys
// (stable; NULLs first ascending, last descending).
func (w Window) partitions(rows [][]Val) [][][]Val {
	idx := map[string]int{}
	var parts [][][]Val
	for _, r := range rows {
		k := ""
		if w.Part != "" {
			k = r[wColIdx(w.Part)].Key()
		}
		i, ok := idx[k]
		if !ok {
			i = len(parts)
			idx[k] = i
			parts = append(parts, nil)
		}
		parts[i] = append(parts[i], r)
	}
	for _, p := range parts {
		p := p
		sort.SliceStable(p, func(a, b int) bool { return w.cmp(p[a], p[b]) < 0 })
	}
	return parts
}

func (w Window) cmp(a, b []Val) int {
	for _, k := range w.Order {
		c := OrderCmp(a[wColIdx(k.Col)], b[wColIdx(k.Col)])
		if k.Desc {
			c = -c
		}
		if c != 0 {
			return c
		}
	}
	return 0
}

// frameOf returns the inclusive index range of the frame of row i (ok=false: empty frame).
func (w Window) frameOf(p [][]Val, i int) (int, int, bool) {
	n := len(p)
	firstPeer, lastPeer := i, i
	for firstPeer > 0 && w.cmp(p[firstPeer-1], p[i]) == 0 {
		firstPeer--
	}
	for lastPeer < n-1 && w.cmp(p[lastPeer+1], p[i]) == 0 {
		lastPeer++
	}
	if w.Frame == nil {
		if len(w.Order) == 0 {
			return 0, n - 1, true
		}
		return 0, lastPeer, true
	}
	f := w.Frame
	var lo, hi int
	if f.Unit == "ROWS" {
		switch f.Start.Kind {
		case "UP":
			lo = 0
		case "P":
			lo = i - f.Start.N
		case "C":
			lo = i
		case "F":
			lo = i + f.Start.N
		}
		switch f.End.Kind {
		case "UF":
			hi = n - 1
		case "P":
			hi = i - f.End.N
		case "C":
			hi = i
		case "F":
			hi = i + f.End.N
		}
	} else {
		// RANGE: one numeric NOT NULL key
		kc := wColIdx(w.Order[0].Col)
		desc := w.Order[0].Desc
		cur := p[i][kc].N
		// position of a value relative to the current row in sort direction
		rel := func(j int) *big.Rat { // (key_j - key_i) in sort direction
			d := new(big.Rat).Sub(p[j][kc].N, cur)
			if desc {
				d.Neg(d)
			}
			return d
		}
		off := func(b Bound) *big.Rat {
			x := new(big.Rat).SetInt64(int64(b.N))
			if b.Kind == "P" {
				x.Neg(x)
			}
			return x
		}
		switch f.Start.Kind {
		case "UP":
			lo = 0
		case "C":
			lo = firstPeer
		default:
			lo = n
			t := off(f.Start)
			for j := 0; j < n; j++ {
				if rel(j).Cmp(t) >= 0 {
					lo = j
					break
				}
			}
		}
		switch f.End.Kind {
		case "UF":
			hi = n - 1
		case "C":
			hi = lastPeer
		default:
			hi = -1
			t := off(f.End)
			for j := n - 1; j >= 0; j-- {
				if rel(j).Cmp(t) <= 0 {
					hi = j
					break
				}
			}
		}
	}
	if lo < 0 {
		lo = 0
	}
	if hi > n-1 {
		hi = n - 1
	}
	if lo > hi {
		return 0, 0, false
	}
	return lo, hi, true
}

// WinCompute evaluates fn for every row; the result maps the row id key to the cell.
func WinCompute(w Window, fn string, arg string, n int, def *Val, rows [][]Val) map[string]Cell {
	out := map[string]Cell{}
	ac := -1
	if arg != "" {
		ac = wColIdx(arg)
	}
	for _, p := range w.partitions(rows) {
		size := len(p)
		for i, r := range p {
			var c Cell
			c.Mode = "exact"
			firstPeer := i
			for firstPeer > 0 && w.cmp(p[firstPeer-1], r) == 0 {
				firstPeer--
			}
			switch fn {
			case "ROW_NUMBER":
				c.V = IntVal(int64(i + 1))
			case "RANK":
				c.V = IntVal(int64(firstPeer + 1))
			case "DENSE_RANK":
				g := 1
				for j := 1; j <= i; j++ {
					if w.cmp(p[j-1], p[j]) != 0 {
						g++
					}
				}
				c.V = IntVal(int64(g))
			case "PERCENT_RANK":
				c.Mode = "approx"
				if size <= 1 {
					c.V = Val{K: KDec, N: new(big.Rat)}
				} else {
					c.V = Val{K: KDec, N: big.NewRat(int64(firstPeer), int64(size-1))}
				}
			case "NTILE":
				q, rem := size/n, size%n
				// the first rem buckets hold q+1 rows
				b, pos := 0, i
				for {
					sz := q
					if b < rem {
						sz = q + 1
					}
					if pos < sz {
						break
					}
					pos -= sz
					b++
				}
				c.V = IntVal(int64(b + 1))
			case "LAG", "LEAD":
				off := n
				if off < 0 {
					off = 1
				}
				j := i - off
				if fn == "LEAD" {
					j = i + off
				}
				switch {
				case j >= 0 && j < size:
					c.V = p[j][ac]
				case def != nil:
					c.V = *def
				default:
					c.V = Null
				}
			case "FIRST_VALUE", "LAST_VALUE":
				lo, hi, ok := w.frameOf(p, i)
				switch {
				case !ok:
					c.V = Null
				case fn == "FIRST_VALUE":
					c.V = p[lo][ac]
				default:
					c.V = p[hi][ac]
				}
			default: // framed aggregate
				lo, hi, ok := w.frameOf(p, i)
				var frame [][]Val
				if ok {
					frame = p[lo : hi+1]
				}
				if fn == "COUNT*" {
					c.V = IntVal(int64(len(frame)))
				} else {
					c.V = AggValue(fn, nonNull(frame, ac))
					if fn == "AVG" {
						c.Mode = "approx"
					}
				}
			}
			out[r[wID].Key()] = c
		}
	}
	return out
}

// ---- comparison ----

// CellOK compares one engine value with the expected cell.
func CellOK(raw any, c Cell) bool {
	switch c.Mode {
	case "pieces":
		ev, ok := FromEngine(raw)
		if !ok {
			return false
		}
		if c.Null || ev.IsNull() {
			return c.Null && ev.IsNull()
		}
		if ev.K != KStr {
			return false
		}
		var got []string
		if !(ev.S == "" && len(c.Pieces) == 0) {
			got = strings.Split(ev.S, c.Sep)
		}
		return sameMultiset(got, c.Pieces)
	case "jsonset", "jsonseq":
		if raw == nil {
			return c.Null
		}
		if c.Null {
			return false
		}
		jw, ok := raw.(sql.JSONWrapper)
		if !ok {
			return false
		}
		x, err := jw.ToInterface(context.Background())
		if err != nil {
			return false
		}
		arr, ok := x.([]interface{})
		if !ok {
			return false
		}
		var got []string
		for _, e := range arr {
			got = append(got, jsonElemKey(e))
		}
		if c.Mode == "jsonseq" {
			if len(got) != len(c.Pieces) {
				return false
			}
			for i := range got {
				if got[i] != c.Pieces[i] {
					return false
				}
			}
			return true
		}
		return sameMultiset(got, c.Pieces)
	}
	ev, ok := FromEngine(raw)
	if !ok {
		return false
	}
	approx := c.Mode == "approx"
	if _, isFloat := raw.(float64); isFloat {
		approx = true // this engine returns DOUBLE for SUM / AVG: compared within 1e-9 relative
	}
	return CellMatch(raw, ev, c.V, approx)
}

func jsonElemKey(e interface{}) string {
	switch x := e.(type) {
	case nil:
		return "NULL"
	case string:
		return "'" + x + "'"
	case bool:
		if x {
			return "true"
		}
		return "false"
	}
	if v, ok := FromEngine(e); ok {
		return v.Key()
	}
	return fmt.Sprintf("?%v", e)
}

func sameMultiset(a, b []string) bool {
	if len(a) != len(b) {
		return false
	}
	x, y := append([]string{}, a...), append([]string{}, b...)
	sort.Strings(x)
	sort.Strings(y)
	for i := range x {
		if x[i] != y[i] {
			return false
		}
	}
	return true
}

// Bad08 is one disagreement of Compare08.
type Bad08 struct {
	Key  string
	Col  int // index into Labels; -1 for row-level problems
	Raw  any
	Text string
}

// Compare08 judges an engine result against the expectation: same key set, every cell OK.
func Compare08(q *Query08, rows []sql.Row) []Bad08 {
	var bad []Bad08
	seen := map[string]bool{}
	for _, r := range rows {
		if len(r) != q.KeyCols+len(q.Labels) {
			return []Bad08{{Col: -1, Text: fmt.Sprintf("row width %d, expected %d", len(r), q.KeyCols+len(q.Labels))}}
		}
		kv := make([]Val, q.KeyCols)
		for i := 0; i < q.KeyCols; i++ {
			v, ok := FromEngine(r[i])
			if !ok {
				return []Bad08{{Col: -1, Text: "key column of an unexpected Go type"}}
			}
			kv[i] = v
		}
		key := RowKey(kv)
		exp, ok := q.Expected[key]
		if !ok {
			bad = append(bad, Bad08{Key: key, Col: -1, Text: "unexpected row " + key})
			continue
		}
		if seen[key] {
			bad = append(bad, Bad08{Key: key, Col: -1, Text: "duplicate row " + key})
			continue
		}
		seen[key] = true
		for j, c := range exp {
			if !CellOK(r[q.KeyCols+j], c) {
				got := "?"
				if v, ok := FromEngine(r[q.KeyCols+j]); ok {
					got = v.Key()
				}
				bad = append(bad, Bad08{Key: key, Col: j, Raw: r[q.KeyCols+j], Text: fmt.Sprintf("%s/%s: engine %s, expected %s", key, q.Labels[j], got, c.String())})
			}
		}
	}
	for _, k := range q.Keys {
		if !seen[k] {
			bad = append(bad, Bad08{Key: k, Col: -1, Text: "missing row " + k})
		}
	}
	return bad
}

func ratInt(i int64) *big.Rat { return new(big.Rat).SetInt64(i) }

// GroupConcatWithoutEmpty reports whether the engine value equals the expected GROUP_CONCAT value
// computed without its empty-string elements (matcher of a known finding).
func GroupConcatWithoutEmpty(exp Cell, raw any) bool {
	ev, ok := FromEngine(raw)
	if !ok {
		return false
	}
	switch exp.Mode {
	case "pieces":
		var ps []string
		for _, p := range exp.Pieces {
			if p != "" {
				ps = append(ps, p)
			}
		}
		if len(ps) == len(exp.Pieces) {
			return false
		}
		c := exp
		c.Pieces, c.Null = ps, len(ps) == 0
		return CellOK(raw, c)
	case "exact":
		// ordered: the separator is not recorded; the engine text must be the expected text with empty
		// elements (and their separators) removed - checked for the separators the generator uses
		if exp.V.K != KStr {
			return false
		}
		for _, sep := range []string{",", "|", ";;", ", "} {
			parts := strings.Split(exp.V.S, sep)
			var ps []string
			for _, p := range parts {
				if p != "" {
					ps = append(ps, p)
				}
			}
			if len(ps) == len(parts) {
				continue
			}
			if len(ps) == 0 {
				if ev.IsNull() {
					return true
				}
				continue
			}
			if ev.K == KStr && ev.S == strings.Join(ps, sep) {
				return true
			}
		}
	}
	return false
}
