package g7lib

import (
	"fmt"
	"sort"
	"strings"
)

// Type is the static type family of an expression.
type Type uint8

const (
	TInt Type = iota
	TDec
	TStr
	TBool
)

func (t Type) String() string { return [...]string{"int", "dec", "str", "bool"}[t] }

// Expr is one expression node. Op selects the meaning:
//
//	col      Tab.Col
//	lit      V (NULL literal: V.K == KNull)
//	cmp      Args[0] Sym Args[1]           Sym in = <> < <= > >= <=>
//	and, or  Args[0] AND|OR Args[1]
//	not      NOT Args[0]
//	isnull   Args[0] IS [NOT] NULL         Not
//	between  Args[0] [NOT] BETWEEN Args[1] AND Args[2]
//	inlist   Args[0] [NOT] IN (Args[1:])
//	insub    Args[0] [NOT] IN (Q)
//	exists   [NOT] EXISTS (Q)
//	ssub     (Q)                           scalar aggregate subquery (exactly one row, one column)
//	arith    Args[0] Sym Args[1]           Sym in + - *
//	case     CASE WHEN Args[0] THEN Args[1] [WHEN .. THEN ..] [ELSE Args[last]] END   (Else set: odd count)
//	coalesce COALESCE(Args...)
//	ifnull   IFNULL(Args[0], Args[1])
//	agg      Sym([DISTINCT] Args[0]) or COUNT(*) (Star)
type Expr struct {
	Op       string  `json:"op"`
	T        Type    `json:"t"`
	Tab      string  `json:"tab,omitempty"`
	Col      string  `json:"col,omitempty"`
	V        Val     `json:"v,omitempty"`
	Sym      string  `json:"sym,omitempty"`
	Not      bool    `json:"not,omitempty"`
	Distinct bool    `json:"distinct,omitempty"`
	Star     bool    `json:"star,omitempty"`
	Args     []*Expr `json:"args,omitempty"`
	Q        *Query  `json:"q,omitempty"`
}

// Item is one select-list entry.
type Item struct {
	E      *Expr
	Alias  string
	Approx bool // AVG: compared within one unit of the engine's last digit
}

// FromItem is one table reference of a left-deep join chain.
type FromItem struct {
	Table string
	Alias string
	Join  string // "" for the first, else INNER | LEFT | RIGHT | CROSS
	On    *Expr
}

// OrderKey sorts by output column Item (0-based).
type OrderKey struct {
	Item    int
	Desc    bool
	Ordinal bool // render as position instead of alias
}

// Query is a select block, or a set operation over two queries when SetOp != "".
type Query struct {
	SetOp string // UNION | INTERSECT | EXCEPT
	All   bool
	L, R  *Query

	Distinct bool
	Star     bool // SELECT * (Items is then the expansion, used by the reference only)
	Items    []*Item
	From     []*FromItem
	Where    *Expr
	Grouped  bool
	GroupBy  []*Expr
	Having   *Expr

	OrderBy []OrderKey
	Limit   int // -1: none
	Offset  int // -1: none
}

// Dialect selects the rendering: the engine's MySQL text, or SQLite text for the construction-time
// cross-check of the reference evaluator.
type Dialect int

const (
	MySQL Dialect = iota
	SQLite
)

func litSQL(v Val) string {
	switch v.K {
	case KNull:
		return "NULL"
	case KStr:
		return "'" + strings.ReplaceAll(v.S, "'", "''") + "'"
	case KDec:
		// always two fraction digits: the literal then has the scale of the DECIMAL(8,2) columns
		s := ratText(v.N)
		if !strings.Contains(s, ".") {
			s += ".00"
		} else if len(s)-strings.Index(s, ".") == 2 {
			s += "0"
		}
		if strings.HasPrefix(s, "-") {
			return "(" + s + ")"
		}
		return s
	}
	s := ratText(v.N)
	if strings.HasPrefix(s, "-") {
		return "(" + s + ")"
	}
	return s
}

// SQL renders an expression, fully parenthesised.
func (e *Expr) SQL(d Dialect) string {
	switch e.Op {
	case "col":
		return e.Tab + "." + e.Col
	case "lit":
		return litSQL(e.V)
	case "cmp":
		sym := e.Sym
		if sym == "<=>" && d == SQLite {
			sym = "IS"
		}
		return "(" + e.Args[0].SQL(d) + " " + sym + " " + e.Args[1].SQL(d) + ")"
	case "and":
		return "(" + e.Args[0].SQL(d) + " AND " + e.Args[1].SQL(d) + ")"
	case "or":
		return "(" + e.Args[0].SQL(d) + " OR " + e.Args[1].SQL(d) + ")"
	case "not":
		return "(NOT " + e.Args[0].SQL(d) + ")"
	case "isnull":
		if e.Not {
			return "(" + e.Args[0].SQL(d) + " IS NOT NULL)"
		}
		return "(" + e.Args[0].SQL(d) + " IS NULL)"
	case "between":
		n := ""
		if e.Not {
			n = "NOT "
		}
		return "(" + e.Args[0].SQL(d) + " " + n + "BETWEEN " + e.Args[1].SQL(d) + " AND " + e.Args[2].SQL(d) + ")"
	case "inlist":
		var parts []string
		for _, a := range e.Args[1:] {
			parts = append(parts, a.SQL(d))
		}
		n := ""
		if e.Not {
			n = "NOT "
		}
		return "(" + e.Args[0].SQL(d) + " " + n + "IN (" + strings.Join(parts, ", ") + "))"
	case "insub":
		n := ""
		if e.Not {
			n = "NOT "
		}
		return "(" + e.Args[0].SQL(d) + " " + n + "IN (" + e.Q.SQL(d) + "))"
	case "exists":
		n := ""
		if e.Not {
			n = "NOT "
		}
		return "(" + n + "EXISTS (" + e.Q.SQL(d) + "))"
	case "ssub":
		return "(" + e.Q.SQL(d) + ")"
	case "arith":
		return "(" + e.Args[0].SQL(d) + " " + e.Sym + " " + e.Args[1].SQL(d) + ")"
	case "case":
		var b strings.Builder
		b.WriteString("CASE")
		n := len(e.Args)
		pairs := n / 2
		for i := 0; i < pairs; i++ {
			b.WriteString(" WHEN " + e.Args[2*i].SQL(d) + " THEN " + e.Args[2*i+1].SQL(d))
		}
		if n%2 == 1 {
			b.WriteString(" ELSE " + e.Args[n-1].SQL(d))
		}
		b.WriteString(" END")
		return b.String()
	case "coalesce":
		var parts []string
		for _, a := range e.Args {
			parts = append(parts, a.SQL(d))
		}
		return "COALESCE(" + strings.Join(parts, ", ") + ")"
	case "ifnull":
		return "IFNULL(" + e.Args[0].SQL(d) + ", " + e.Args[1].SQL(d) + ")"
	case "agg":
		if e.Star {
			return "COUNT(*)"
		}
		ds := ""
		if e.Distinct {
			ds = "DISTINCT "
		}
		return e.Sym + "(" + ds + e.Args[0].SQL(d) + ")"
	}
	panic("render: unknown op " + e.Op)
}

// SQL renders a query.
func (q *Query) SQL(d Dialect) string {
	var b strings.Builder
	if q.SetOp != "" {
		op := q.SetOp
		if q.All {
			op += " ALL"
		}
		if d == SQLite {
			b.WriteString("SELECT * FROM (" + q.L.SQL(d) + ") " + op + " SELECT * FROM (" + q.R.SQL(d) + ")")
		} else {
			b.WriteString("(" + q.L.SQL(d) + ") " + op + " (" + q.R.SQL(d) + ")")
		}
	} else {
		b.WriteString("SELECT ")
		if q.Distinct {
			b.WriteString("DISTINCT ")
		}
		if q.Star {
			b.WriteString("*")
		} else {
			for i, it := range q.Items {
				if i > 0 {
					b.WriteString(", ")
				}
				b.WriteString(it.E.SQL(d))
				if it.Alias != "" {
					b.WriteString(" AS " + it.Alias)
				}
			}
		}
		b.WriteString(" FROM ")
		for i, f := range q.From {
			if i > 0 {
				switch f.Join {
				case "CROSS":
					b.WriteString(" CROSS JOIN ")
				default:
					b.WriteString(" " + f.Join + " JOIN ")
				}
			}
			b.WriteString(f.Table + " " + f.Alias)
			if i > 0 && f.On != nil {
				b.WriteString(" ON " + f.On.SQL(d))
			}
		}
		if q.Where != nil {
			b.WriteString(" WHERE " + q.Where.SQL(d))
		}
		if len(q.GroupBy) > 0 {
			b.WriteString(" GROUP BY ")
			for i, g := range q.GroupBy {
				if i > 0 {
					b.WriteString(", ")
				}
				b.WriteString(g.SQL(d))
			}
		}
		if q.Having != nil {
			b.WriteString(" HAVING " + q.Having.SQL(d))
		}
	}
	if len(q.OrderBy) > 0 {
		b.WriteString(" ORDER BY ")
		for i, k := range q.OrderBy {
			if i > 0 {
				b.WriteString(", ")
			}
			if k.Ordinal {
				fmt.Fprintf(&b, "%d", k.Item+1)
			} else {
				b.WriteString(q.OutAlias(k.Item))
			}
			if k.Desc {
				b.WriteString(" DESC")
			}
		}
	}
	if q.Limit >= 0 {
		fmt.Fprintf(&b, " LIMIT %d", q.Limit)
		if q.Offset >= 0 {
			fmt.Fprintf(&b, " OFFSET %d", q.Offset)
		}
	}
	return b.String()
}

// OutAlias is the name of output column i.
func (q *Query) OutAlias(i int) string {
	if q.SetOp != "" {
		return q.L.OutAlias(i)
	}
	return q.Items[i].Alias
}

// Width is the number of output columns.
func (q *Query) Width() int {
	if q.SetOp != "" {
		return q.L.Width()
	}
	return len(q.Items)
}

// ApproxCols lists the output columns compared by the AVG rule.
func (q *Query) ApproxCols() []bool {
	out := make([]bool, q.Width())
	if q.SetOp != "" {
		return out
	}
	for i, it := range q.Items {
		out[i] = it.Approx
	}
	return out
}

// ---- feature extraction (evidence and signatures) ----

// Features returns the sorted set of syntactic features of a query.
func (q *Query) Features() []string {
	set := map[string]bool{}
	q.features(set, 0)
	out := make([]string, 0, len(set))
	for k := range set {
		out = append(out, k)
	}
	sort.Strings(out)
	return out
}

func (q *Query) features(set map[string]bool, depth int) {
	if depth > 0 {
		set[fmt.Sprintf("subq-depth-%d", depth)] = true
	}
	if q.SetOp != "" {
		n := strings.ToLower(q.SetOp)
		if q.All {
			n += "-all"
		}
		set[n] = true
		q.L.features(set, depth)
		q.R.features(set, depth)
	} else {
		if q.Distinct {
			set["distinct"] = true
		}
		if q.Star {
			set["star"] = true
		}
		if len(q.From) > 1 {
			set[fmt.Sprintf("tables-%d", len(q.From))] = true
		}
		for i, f := range q.From {
			if i > 0 {
				set["join-"+strings.ToLower(f.Join)] = true
				if f.On != nil {
					f.On.features(set, depth, "on")
				}
			}
		}
		if q.Where != nil {
			set["where"] = true
			q.Where.features(set, depth, "where")
		}
		if q.Grouped {
			if len(q.GroupBy) > 0 {
				set["group-by"] = true
			} else {
				set["agg-no-group"] = true
			}
		}
		for _, g := range q.GroupBy {
			g.features(set, depth, "groupby")
		}
		if q.Having != nil {
			set["having"] = true
			q.Having.features(set, depth, "having")
		}
		for _, it := range q.Items {
			it.E.features(set, depth, "select")
		}
	}
	if len(q.OrderBy) > 0 {
		set["order-by"] = true
	}
	if q.Limit >= 0 {
		set["limit"] = true
		if q.Offset >= 0 {
			set["offset"] = true
		}
	}
}

func (e *Expr) features(set map[string]bool, depth int, where string) {
	switch e.Op {
	case "cmp":
		if e.Sym == "<=>" {
			set["nullsafe-eq"] = true
		}
		if e.Args[0].T != e.Args[1].T && e.Args[0].Op != "lit" && e.Args[1].Op != "lit" {
			set["cmp-int-dec"] = true
		}
	case "and", "or", "not":
		set["logic-"+e.Op] = true
	case "isnull":
		set["is-null"] = true
	case "between":
		set["between"] = true
	case "inlist":
		if e.Not {
			set["not-in-list"] = true
		} else {
			set["in-list"] = true
		}
	case "insub":
		n := "in-subquery"
		if e.Not {
			n = "not-in-subquery"
		}
		set[n] = true
		set["subquery-in-"+where] = true
		if e.Q.Correlated() {
			set[n+"-correlated"] = true
		}
		e.Q.features(set, depth+1)
	case "exists":
		n := "exists"
		if e.Not {
			n = "not-exists"
		}
		set[n] = true
		set["subquery-in-"+where] = true
		if e.Q.Correlated() {
			set[n+"-correlated"] = true
		}
		e.Q.features(set, depth+1)
	case "ssub":
		set["scalar-subquery"] = true
		set["subquery-in-"+where] = true
		if e.Q.Correlated() {
			set["scalar-subquery-correlated"] = true
		}
		e.Q.features(set, depth+1)
	case "arith":
		set["arith"] = true
	case "case":
		set["case"] = true
	case "coalesce", "ifnull":
		set[e.Op] = true
	case "agg":
		n := strings.ToLower(e.Sym)
		if e.Star {
			n = "count-star"
		}
		if e.Distinct {
			n += "-distinct"
		}
		set["agg-"+n] = true
	case "lit":
		if e.V.K == KNull {
			set["null-literal"] = true
		}
	}
	for _, a := range e.Args {
		a.features(set, depth, where)
	}
}

// Correlated reports whether the query references a table alias it does not define itself.
func (q *Query) Correlated() bool {
	def := map[string]bool{}
	q.definedAliases(def)
	free := false
	q.walkExprs(func(e *Expr) {
		if e.Op == "col" && !def[e.Tab] {
			free = true
		}
	})
	return free
}

func (q *Query) definedAliases(def map[string]bool) {
	if q.SetOp != "" {
		q.L.definedAliases(def)
		q.R.definedAliases(def)
		return
	}
	for _, f := range q.From {
		def[f.Alias] = true
	}
	q.walkExprs(func(e *Expr) {
		if e.Q != nil {
			e.Q.definedAliases(def)
		}
	})
}

// walkExprs visits every expression node of the query, including those of nested queries.
func (q *Query) walkExprs(fn func(*Expr)) {
	if q.SetOp != "" {
		q.L.walkExprs(fn)
		q.R.walkExprs(fn)
		return
	}
	for _, f := range q.From {
		if f.On != nil {
			f.On.walk(fn)
		}
	}
	if q.Where != nil {
		q.Where.walk(fn)
	}
	for _, g := range q.GroupBy {
		g.walk(fn)
	}
	if q.Having != nil {
		q.Having.walk(fn)
	}
	if !q.Star {
		for _, it := range q.Items {
			it.E.walk(fn)
		}
	}
}

// Walk visits every node of the expression, nested queries included.
func (e *Expr) Walk(fn func(*Expr)) { e.walk(fn) }

// DirectSubqueries visits the subqueries directly contained in this block's expressions.
func (q *Query) DirectSubqueries(fn func(*Query)) { q.directSubqueries(fn) }

// walkShallow visits the nodes of the expression without descending into subqueries.
func (e *Expr) walkShallow(fn func(*Expr)) {
	fn(e)
	for _, a := range e.Args {
		a.walkShallow(fn)
	}
}

func (e *Expr) walk(fn func(*Expr)) {
	fn(e)
	for _, a := range e.Args {
		a.walk(fn)
	}
	if e.Q != nil {
		e.Q.walkExprs(fn)
	}
}

// Tables counts the table references of the query including nested queries; Depth is the subquery
// nesting depth.
func (q *Query) Tables() int {
	var rec func(x *Query) int
	rec = func(x *Query) int {
		if x.SetOp != "" {
			return rec(x.L) + rec(x.R)
		}
		c := len(x.From)
		x.directSubqueries(func(s *Query) { c += rec(s) })
		return c
	}
	return rec(q)
}

// directSubqueries visits the subqueries directly contained in this block's expressions.
func (q *Query) directSubqueries(fn func(*Query)) {
	var visit func(e *Expr)
	visit = func(e *Expr) {
		if e == nil {
			return
		}
		for _, a := range e.Args {
			visit(a)
		}
		if e.Q != nil {
			fn(e.Q)
		}
	}
	if q.SetOp != "" {
		q.L.directSubqueries(fn)
		q.R.directSubqueries(fn)
		return
	}
	for _, f := range q.From {
		visit(f.On)
	}
	visit(q.Where)
	for _, g := range q.GroupBy {
		visit(g)
	}
	visit(q.Having)
	if !q.Star {
		for _, it := range q.Items {
			visit(it.E)
		}
	}
}

// Depth is the subquery nesting depth (0 = no subquery).
func (q *Query) Depth() int {
	d := 0
	q.directSubqueries(func(s *Query) {
		if x := 1 + s.Depth(); x > d {
			d = x
		}
	})
	return d
}
