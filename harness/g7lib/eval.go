package g7lib

import (
	"fmt"
	"math/big"
	"sort"

	"github.com/dolthub/go-mysql-server/sql"
)

// ColDef is one column of a reference table.
type ColDef struct {
	Name    string
	T       Type
	NotNull bool
	SQLType string
}

// Table is a reference table: the rows are what the engine returned for SELECT * after setup.
type Table struct {
	Name    string
	Cols    []ColDef
	Rows    [][]Val
	PK      []string
	Indexes [][]string
}

func (t *Table) colIdx(name string) int {
	for i, c := range t.Cols {
		if c.Name == name {
			return i
		}
	}
	return -1
}

// DB is the set of reference tables.
type DB struct {
	Tables map[string]*Table
	Order  []string
}

// RefError is a failure of the reference evaluator itself (malformed AST): never a verdict.
type RefError struct{ Msg string }

func (e RefError) Error() string { return "reference evaluator: " + e.Msg }

func refFail(format string, a ...any) { panic(RefError{fmt.Sprintf(format, a...)}) }

type scope struct {
	parent  *scope
	aliases []string
	tabs    []*Table
	offs    []int
	row     []Val
	group   [][]Val
	grouped bool
}

func (sc *scope) lookup(tab, col string) Val {
	for s := sc; s != nil; s = s.parent {
		for i, a := range s.aliases {
			if a == tab {
				ci := s.tabs[i].colIdx(col)
				if ci < 0 {
					refFail("no column %s.%s", tab, col)
				}
				if s.row == nil {
					return Null
				}
				k := s.offs[i] + ci
				if k >= len(s.row) {
					refFail("column %s.%s referenced before its table is joined", tab, col)
				}
				return s.row[k]
			}
		}
	}
	refFail("unknown table alias %s", tab)
	return Null
}

// truth values
const (
	tFalse = 0
	tTrue  = 1
	tNull  = -1
)

func truth(v Val) int {
	if v.IsNull() {
		return tNull
	}
	if !v.IsNum() {
		refFail("string used as truth value")
	}
	if v.N.Sign() != 0 {
		return tTrue
	}
	return tFalse
}

func fromTruth(t int) Val {
	switch t {
	case tTrue:
		return IntVal(1)
	case tFalse:
		return IntVal(0)
	}
	return Null
}

func tNot(a int) int {
	if a == tNull {
		return tNull
	}
	return 1 - a
}

func tAnd(a, b int) int {
	if a == tFalse || b == tFalse {
		return tFalse
	}
	if a == tTrue && b == tTrue {
		return tTrue
	}
	return tNull
}

func tOr(a, b int) int {
	if a == tTrue || b == tTrue {
		return tTrue
	}
	if a == tFalse && b == tFalse {
		return tFalse
	}
	return tNull
}

func cmpOp(sym string, a, b Val) int {
	if sym == "<=>" {
		if a.IsNull() || b.IsNull() {
			if a.IsNull() && b.IsNull() {
				return tTrue
			}
			return tFalse
		}
		c, ok := Cmp3(a, b)
		if !ok {
			refFail("comparison across families")
		}
		if c == 0 {
			return tTrue
		}
		return tFalse
	}
	if a.IsNull() || b.IsNull() {
		return tNull
	}
	c, ok := Cmp3(a, b)
	if !ok {
		refFail("comparison across families: %s %s %s", a.Key(), sym, b.Key())
	}
	var r bool
	switch sym {
	case "=":
		r = c == 0
	case "<>":
		r = c != 0
	case "<":
		r = c < 0
	case "<=":
		r = c <= 0
	case ">":
		r = c > 0
	case ">=":
		r = c >= 0
	default:
		refFail("unknown comparison %s", sym)
	}
	if r {
		return tTrue
	}
	return tFalse
}

// inSet is the IN rule: TRUE if some x = v is TRUE, else NULL if some is NULL, else FALSE.
func inSet(x Val, set []Val) int {
	res := tFalse
	for _, v := range set {
		switch cmpOp("=", x, v) {
		case tTrue:
			return tTrue
		case tNull:
			res = tNull
		}
	}
	return res
}

// Evaluator evaluates queries of the fragment over a reference database.
type Evaluator struct {
	DB *DB
}

func (ev *Evaluator) expr(e *Expr, sc *scope) Val {
	switch e.Op {
	case "col":
		return sc.lookup(e.Tab, e.Col)
	case "lit":
		return e.V
	case "cmp":
		return fromTruth(cmpOp(e.Sym, ev.expr(e.Args[0], sc), ev.expr(e.Args[1], sc)))
	case "and":
		return fromTruth(tAnd(truth(ev.expr(e.Args[0], sc)), truth(ev.expr(e.Args[1], sc))))
	case "or":
		return fromTruth(tOr(truth(ev.expr(e.Args[0], sc)), truth(ev.expr(e.Args[1], sc))))
	case "not":
		return fromTruth(tNot(truth(ev.expr(e.Args[0], sc))))
	case "isnull":
		n := ev.expr(e.Args[0], sc).IsNull()
		if e.Not {
			n = !n
		}
		if n {
			return IntVal(1)
		}
		return IntVal(0)
	case "between":
		x, lo, hi := ev.expr(e.Args[0], sc), ev.expr(e.Args[1], sc), ev.expr(e.Args[2], sc)
		t := tAnd(cmpOp(">=", x, lo), cmpOp("<=", x, hi))
		if e.Not {
			t = tNot(t)
		}
		return fromTruth(t)
	case "inlist":
		x := ev.expr(e.Args[0], sc)
		set := make([]Val, 0, len(e.Args)-1)
		for _, a := range e.Args[1:] {
			set = append(set, ev.expr(a, sc))
		}
		t := inSet(x, set)
		if e.Not {
			t = tNot(t)
		}
		return fromTruth(t)
	case "insub":
		x := ev.expr(e.Args[0], sc)
		rows := ev.query(e.Q, sc)
		set := make([]Val, 0, len(rows))
		for _, r := range rows {
			if len(r) != 1 {
				refFail("IN subquery with %d columns", len(r))
			}
			set = append(set, r[0])
		}
		t := inSet(x, set) // empty set: FALSE whatever x is
		if e.Not {
			t = tNot(t)
		}
		return fromTruth(t)
	case "exists":
		rows := ev.query(e.Q, sc)
		ok := len(rows) > 0
		if e.Not {
			ok = !ok
		}
		if ok {
			return IntVal(1)
		}
		return IntVal(0)
	case "ssub":
		rows := ev.query(e.Q, sc)
		if len(rows) != 1 || len(rows[0]) != 1 {
			refFail("scalar subquery returned %d rows", len(rows))
		}
		return rows[0][0]
	case "arith":
		a, b := ev.expr(e.Args[0], sc), ev.expr(e.Args[1], sc)
		if a.IsNull() || b.IsNull() {
			return Null
		}
		if !a.IsNum() || !b.IsNum() {
			refFail("arithmetic on a string")
		}
		r := new(big.Rat)
		switch e.Sym {
		case "+":
			r.Add(a.N, b.N)
		case "-":
			r.Sub(a.N, b.N)
		case "*":
			r.Mul(a.N, b.N)
		default:
			refFail("unknown arithmetic %s", e.Sym)
		}
		return RatVal(r)
	case "case":
		n := len(e.Args)
		for i := 0; i+1 < n; i += 2 {
			if truth(ev.expr(e.Args[i], sc)) == tTrue {
				return ev.expr(e.Args[i+1], sc)
			}
		}
		if n%2 == 1 {
			return ev.expr(e.Args[n-1], sc)
		}
		return Null
	case "coalesce":
		for _, a := range e.Args {
			if v := ev.expr(a, sc); !v.IsNull() {
				return v
			}
		}
		return Null
	case "ifnull":
		if v := ev.expr(e.Args[0], sc); !v.IsNull() {
			return v
		}
		return ev.expr(e.Args[1], sc)
	case "agg":
		return ev.agg(e, sc)
	}
	refFail("unknown op %s", e.Op)
	return Null
}

func (ev *Evaluator) agg(e *Expr, sc *scope) Val {
	if !sc.grouped {
		refFail("aggregate outside a grouped context")
	}
	if e.Star {
		return IntVal(int64(len(sc.group)))
	}
	var vals []Val
	seen := map[string]bool{}
	for _, r := range sc.group {
		sub := &scope{parent: sc.parent, aliases: sc.aliases, tabs: sc.tabs, offs: sc.offs, row: r}
		v := ev.expr(e.Args[0], sub)
		if v.IsNull() {
			continue
		}
		if e.Distinct {
			k := v.Key()
			if seen[k] {
				continue
			}
			seen[k] = true
		}
		vals = append(vals, v)
	}
	return AggValue(e.Sym, vals)
}

// AggValue computes COUNT / SUM / AVG / MIN / MAX over the non-NULL inputs.
func AggValue(fn string, vals []Val) Val {
	switch fn {
	case "COUNT":
		return IntVal(int64(len(vals)))
	case "SUM", "AVG":
		if len(vals) == 0 {
			return Null
		}
		s := new(big.Rat)
		for _, v := range vals {
			if !v.IsNum() {
				refFail("%s over strings", fn)
			}
			s.Add(s, v.N)
		}
		if fn == "AVG" {
			s.Quo(s, new(big.Rat).SetInt64(int64(len(vals))))
			return Val{K: KDec, N: s}
		}
		return RatVal(s)
	case "MIN", "MAX":
		if len(vals) == 0 {
			return Null
		}
		best := vals[0]
		for _, v := range vals[1:] {
			c, ok := Cmp3(v, best)
			if !ok {
				refFail("%s across families", fn)
			}
			if (fn == "MIN" && c < 0) || (fn == "MAX" && c > 0) {
				best = v
			}
		}
		return best
	}
	refFail("unknown aggregate %s", fn)
	return Null
}

// Query evaluates a top-level query. A RefError panic is returned as err.
func (ev *Evaluator) Query(q *Query) (rows [][]Val, err error) {
	defer func() {
		if rec := recover(); rec != nil {
			if re, ok := rec.(RefError); ok {
				err = re
				return
			}
			panic(rec)
		}
	}()
	return ev.query(q, nil), nil
}

func (ev *Evaluator) query(q *Query, parent *scope) [][]Val {
	var out [][]Val
	if q.SetOp != "" {
		out = setOp(q.SetOp, q.All, ev.query(q.L, parent), ev.query(q.R, parent))
	} else {
		out = ev.selectBlock(q, parent)
	}
	return orderLimit(q, out)
}

func (ev *Evaluator) selectBlock(q *Query, parent *scope) [][]Val {
	sc := &scope{parent: parent}
	off := 0
	for _, f := range q.From {
		t := ev.DB.Tables[f.Table]
		if t == nil {
			refFail("unknown table %s", f.Table)
		}
		sc.aliases = append(sc.aliases, f.Alias)
		sc.tabs = append(sc.tabs, t)
		sc.offs = append(sc.offs, off)
		off += len(t.Cols)
	}
	rows := ev.joinRows(q, sc)
	if q.Where != nil {
		var kept [][]Val
		for _, r := range rows {
			rs := &scope{parent: parent, aliases: sc.aliases, tabs: sc.tabs, offs: sc.offs, row: r}
			if truth(ev.expr(q.Where, rs)) == tTrue {
				kept = append(kept, r)
			}
		}
		rows = kept
	}
	var out [][]Val
	if q.Grouped {
		type grp struct{ rows [][]Val }
		var groups []*grp
		if len(q.GroupBy) == 0 {
			groups = []*grp{{rows: rows}}
		} else {
			idx := map[string]*grp{}
			for _, r := range rows {
				rs := &scope{parent: parent, aliases: sc.aliases, tabs: sc.tabs, offs: sc.offs, row: r}
				key := make([]Val, len(q.GroupBy))
				for i, g := range q.GroupBy {
					key[i] = ev.expr(g, rs)
				}
				k := RowKey(key)
				g := idx[k]
				if g == nil {
					g = &grp{}
					idx[k] = g
					groups = append(groups, g)
				}
				g.rows = append(g.rows, r)
			}
		}
		for _, g := range groups {
			gs := &scope{parent: parent, aliases: sc.aliases, tabs: sc.tabs, offs: sc.offs, grouped: true, group: g.rows}
			if len(g.rows) > 0 {
				gs.row = g.rows[0]
			}
			if q.Having != nil && truth(ev.expr(q.Having, gs)) != tTrue {
				continue
			}
			o := make([]Val, len(q.Items))
			for i, it := range q.Items {
				o[i] = ev.expr(it.E, gs)
			}
			out = append(out, o)
		}
	} else {
		for _, r := range rows {
			rs := &scope{parent: parent, aliases: sc.aliases, tabs: sc.tabs, offs: sc.offs, row: r}
			o := make([]Val, len(q.Items))
			for i, it := range q.Items {
				o[i] = ev.expr(it.E, rs)
			}
			out = append(out, o)
		}
	}
	if q.Distinct {
		out = dedupe(out)
	}
	return out
}

func (ev *Evaluator) joinRows(q *Query, sc *scope) [][]Val {
	var cur [][]Val
	for _, r := range sc.tabs[0].Rows {
		cur = append(cur, append([]Val{}, r...))
	}
	for k := 1; k < len(q.From); k++ {
		f := q.From[k]
		right := sc.tabs[k].Rows
		wl, wr := sc.offs[k], len(sc.tabs[k].Cols)
		on := func(row []Val) bool {
			if f.On == nil {
				return true
			}
			rs := &scope{parent: sc.parent, aliases: sc.aliases[:k+1], tabs: sc.tabs[:k+1], offs: sc.offs[:k+1], row: row}
			return truth(ev.expr(f.On, rs)) == tTrue
		}
		cat := func(l, r []Val) []Val {
			o := make([]Val, 0, wl+wr)
			o = append(o, l...)
			return append(o, r...)
		}
		nulls := func(n int) []Val {
			o := make([]Val, n)
			for i := range o {
				o[i] = Null
			}
			return o
		}
		var next [][]Val
		switch f.Join {
		case "CROSS", "INNER":
			for _, l := range cur {
				for _, r := range right {
					row := cat(l, r)
					if on(row) {
						next = append(next, row)
					}
				}
			}
		case "LEFT":
			for _, l := range cur {
				matched := false
				for _, r := range right {
					row := cat(l, r)
					if on(row) {
						matched = true
						next = append(next, row)
					}
				}
				if !matched {
					next = append(next, cat(l, nulls(wr)))
				}
			}
		case "RIGHT":
			for _, r := range right {
				matched := false
				for _, l := range cur {
					row := cat(l, r)
					if on(row) {
						matched = true
						next = append(next, row)
					}
				}
				if !matched {
					next = append(next, cat(nulls(wl), r))
				}
			}
		default:
			refFail("unknown join %s", f.Join)
		}
		cur = next
	}
	return cur
}

func dedupe(rows [][]Val) [][]Val {
	seen := map[string]bool{}
	var out [][]Val
	for _, r := range rows {
		k := RowKey(r)
		if !seen[k] {
			seen[k] = true
			out = append(out, r)
		}
	}
	return out
}

func setOp(op string, all bool, l, r [][]Val) [][]Val {
	count := func(rows [][]Val) map[string]int {
		m := map[string]int{}
		for _, x := range rows {
			m[RowKey(x)]++
		}
		return m
	}
	switch op {
	case "UNION":
		out := append(append([][]Val{}, l...), r...)
		if !all {
			out = dedupe(out)
		}
		return out
	case "INTERSECT":
		rc := count(r)
		var out [][]Val
		if all {
			for _, x := range l {
				k := RowKey(x)
				if rc[k] > 0 {
					rc[k]--
					out = append(out, x)
				}
			}
			return out
		}
		for _, x := range dedupe(l) {
			if rc[RowKey(x)] > 0 {
				out = append(out, x)
			}
		}
		return out
	case "EXCEPT":
		rc := count(r)
		var out [][]Val
		if all {
			for _, x := range l {
				k := RowKey(x)
				if rc[k] > 0 {
					rc[k]--
					continue
				}
				out = append(out, x)
			}
			return out
		}
		for _, x := range dedupe(l) {
			if rc[RowKey(x)] == 0 {
				out = append(out, x)
			}
		}
		return out
	}
	refFail("unknown set operator %s", op)
	return nil
}

// keyCmp compares two rows on the ORDER BY keys.
func keyCmp(keys []OrderKey, a, b []Val) int {
	for _, k := range keys {
		c := OrderCmp(a[k.Item], b[k.Item])
		if k.Desc {
			c = -c
		}
		if c != 0 {
			return c
		}
	}
	return 0
}

func orderLimit(q *Query, rows [][]Val) [][]Val {
	if len(q.OrderBy) > 0 {
		sort.SliceStable(rows, func(i, j int) bool { return keyCmp(q.OrderBy, rows[i], rows[j]) < 0 })
	}
	if q.Limit >= 0 {
		off := 0
		if q.Offset > 0 {
			off = q.Offset
		}
		if off > len(rows) {
			off = len(rows)
		}
		rows = rows[off:]
		if q.Limit < len(rows) {
			rows = rows[:q.Limit]
		}
	}
	return rows
}

// ---- comparison of an engine result with the reference result ----

// Diff describes a disagreement.
type Diff struct {
	Mode    string   // width | row-count-more | row-count-fewer | different-rows | order | sequence | value-type
	Extra   []string // rows only the engine returned
	Missing []string // rows only the reference has
	Note    string
}

// Compare judges the engine rows against the reference rows under the query's ordering contract:
// multiset equality always; when ORDER BY is present the engine sequence must be sorted on the keys;
// when LIMIT is present the generator guarantees a total order and the sequences must be identical.
func Compare(q *Query, raw []sql.Row, ref [][]Val) *Diff {
	eng, ok := EngineRows(raw)
	if !ok {
		return &Diff{Mode: "value-type", Note: "engine returned a Go type outside the fragment"}
	}
	w := q.Width()
	for _, r := range eng {
		if len(r) != w {
			return &Diff{Mode: "width", Note: fmt.Sprintf("engine row has %d columns, expected %d", len(r), w)}
		}
	}
	approx := q.ApproxCols()
	anyApprox := false
	for _, a := range approx {
		anyApprox = anyApprox || a
	}
	rowMatch := func(i int, rr []Val) bool {
		for j := range rr {
			if !CellMatch(raw[i][j], eng[i][j], rr[j], approx[j]) {
				return false
			}
		}
		return true
	}
	if q.Limit >= 0 {
		if len(eng) != len(ref) {
			return seqDiff(eng, ref, "sequence")
		}
		for i := range eng {
			if !rowMatch(i, ref[i]) {
				return seqDiff(eng, ref, "sequence")
			}
		}
		return nil
	}
	var extra, missing []string
	if !anyApprox {
		cnt := map[string]int{}
		for _, r := range ref {
			cnt[RowKey(r)]++
		}
		for _, r := range eng {
			k := RowKey(r)
			if cnt[k] > 0 {
				cnt[k]--
			} else {
				extra = append(extra, k)
			}
		}
		for _, r := range ref {
			k := RowKey(r)
			if cnt[k] > 0 {
				cnt[k]--
				missing = append(missing, k)
			}
		}
	} else {
		used := make([]bool, len(ref))
		for i := range eng {
			found := false
			for j := range ref {
				if !used[j] && rowMatch(i, ref[j]) {
					used[j] = true
					found = true
					break
				}
			}
			if !found {
				extra = append(extra, RowKey(eng[i]))
			}
		}
		for j := range ref {
			if !used[j] {
				missing = append(missing, RowKey(ref[j]))
			}
		}
	}
	if len(extra) > 0 || len(missing) > 0 {
		sort.Strings(extra)
		sort.Strings(missing)
		mode := "different-rows"
		switch {
		case len(missing) == 0:
			mode = "extra-rows"
		case len(extra) == 0:
			mode = "missing-rows"
		}
		return &Diff{Mode: mode, Extra: extra, Missing: missing}
	}
	if len(q.OrderBy) > 0 {
		for i := 1; i < len(eng); i++ {
			if keyCmp(q.OrderBy, eng[i-1], eng[i]) > 0 {
				return &Diff{Mode: "order", Note: fmt.Sprintf("rows %d and %d are out of order: %s ; %s", i-1, i, RowKey(eng[i-1]), RowKey(eng[i]))}
			}
		}
	}
	return nil
}

func seqDiff(eng, ref [][]Val, mode string) *Diff {
	return &Diff{Mode: mode, Extra: RowKeys(eng), Missing: RowKeys(ref), Note: "Extra = engine sequence, Missing = reference sequence"}
}

// SortedOnKeys reports whether the engine rows are sorted on the query's ORDER BY keys.
func SortedOnKeys(q *Query, raw []sql.Row) bool {
	eng, ok := EngineRows(raw)
	if !ok {
		return false
	}
	for i := 1; i < len(eng); i++ {
		if keyCmp(q.OrderBy, eng[i-1], eng[i]) > 0 {
			return false
		}
	}
	return true
}
