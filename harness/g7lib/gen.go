package g7lib

import (
	"fmt"
	"math/rand"
	"strings"
)

// ---- schema and data ----

// Cfg steers the generators.
type Cfg struct {
	Tables    int  // tables in the schema
	MaxRows   int  // rows per table (0..MaxRows)
	ForSQLite bool // construction-time cross-check: binary-exact decimals, no INTERSECT/EXCEPT ALL
	NoIndexes bool
	NoDecIndex bool // no secondary index with a DECIMAL leading column (decimal-index-not-equal finding)
}

var (
	intPool  = []int64{0, 1, 1, 2, 2, 3, 3, -1, 5, 10}
	decPool  = []string{"0.00", "1.00", "1.50", "2.25", "-1.50", "3.00", "2.00", "1.10", "0.05", "10.00"}
	decPoolB = []string{"0.00", "1.00", "1.50", "2.25", "-1.50", "3.00", "2.00", "0.25", "0.75", "10.00"} // binary-exact
	strPool  = []string{"a", "A", "b", "B", "ab", "Ab", "", "a ", "abc", "0", "1", "b"}
)

// Schema is a generated schema with its data and the SQL that creates it.
type Schema struct {
	DB    *DB
	Setup []string // MySQL statements
	Lite  []string // SQLite statements (cross-check only)
}

// GenSchema generates tables t0..t(n-1) with the shared column layout
// (id INT NOT NULL unique, a INT, b INT, d DECIMAL(8,2), s VARCHAR(8) binary collation), random keys
// and secondary indexes, and 0..MaxRows rows drawn from small shared pools (NULLs, duplicates).
func GenSchema(rnd *rand.Rand, cfg Cfg) *Schema {
	sch := &Schema{DB: &DB{Tables: map[string]*Table{}}}
	for k := 0; k < cfg.Tables; k++ {
		name := fmt.Sprintf("t%d", k)
		t := &Table{Name: name}
		bNotNull := rnd.Intn(10) < 3
		t.Cols = []ColDef{
			{Name: "id", T: TInt, NotNull: true, SQLType: "INT NOT NULL"},
			{Name: "a", T: TInt, SQLType: "INT"},
			{Name: "b", T: TInt, NotNull: bNotNull, SQLType: "INT"},
			{Name: "d", T: TDec, SQLType: "DECIMAL(8,2)"},
			{Name: "s", T: TStr, SQLType: "VARCHAR(8) COLLATE utf8mb4_0900_bin"},
		}
		if bNotNull {
			t.Cols[2].SQLType = "INT NOT NULL"
		}
		var defs, lite []string
		for _, c := range t.Cols {
			defs = append(defs, c.Name+" "+c.SQLType)
			lt := "INT"
			switch c.T {
			case TDec:
				lt = "NUMERIC"
			case TStr:
				lt = "TEXT"
			}
			lite = append(lite, c.Name+" "+lt)
		}
		if rnd.Intn(10) < 7 {
			t.PK = []string{"id"}
			defs = append(defs, "PRIMARY KEY (id)")
		}
		if !cfg.NoIndexes {
			cands := [][]string{{"a"}, {"b"}, {"a", "b"}, {"s"}, {"d"}, {"b", "a"}, {"s", "a"}}
			for i, c := range cands {
				hit := rnd.Intn(100) < 22
				if cfg.NoDecIndex && c[0] == "d" {
					continue
				}
				if hit {
					t.Indexes = append(t.Indexes, c)
					defs = append(defs, fmt.Sprintf("KEY k%d (%s)", i, strings.Join(c, ", ")))
				}
			}
		}
		sch.Setup = append(sch.Setup, fmt.Sprintf("CREATE TABLE %s (%s)", name, strings.Join(defs, ", ")))
		sch.Lite = append(sch.Lite, fmt.Sprintf("CREATE TABLE %s (%s)", name, strings.Join(lite, ", ")))
		n := 0
		switch x := rnd.Intn(20); {
		case x == 0:
			n = 0
		case x == 1:
			n = 1
		default:
			n = 2 + rnd.Intn(cfg.MaxRows-1)
		}
		id := int64(1)
		if rnd.Intn(6) == 0 {
			id = -2
		}
		dp := decPool
		if cfg.ForSQLite {
			dp = decPoolB
		}
		for i := 0; i < n; i++ {
			row := make([]Val, 5)
			row[0] = IntVal(id)
			id += 1 + int64(rnd.Intn(3)/2)
			pickInt := func(nullPct int) Val {
				if rnd.Intn(100) < nullPct {
					return Null
				}
				return IntVal(intPool[rnd.Intn(len(intPool))])
			}
			row[1] = pickInt(22)
			if bNotNull {
				row[2] = pickInt(0)
			} else {
				row[2] = pickInt(22)
			}
			if rnd.Intn(100) < 22 {
				row[3] = Null
			} else {
				row[3] = DecVal(dp[rnd.Intn(len(dp))])
			}
			if rnd.Intn(100) < 22 {
				row[4] = Null
			} else {
				row[4] = StrVal(strPool[rnd.Intn(len(strPool))])
			}
			var lits []string
			for _, v := range row {
				lits = append(lits, strings.Trim(litSQL(v), "()"))
			}
			ins := fmt.Sprintf("INSERT INTO %s VALUES (%s)", name, strings.Join(lits, ", "))
			sch.Setup = append(sch.Setup, ins)
			sch.Lite = append(sch.Lite, ins)
			t.Rows = append(t.Rows, row)
		}
		sch.DB.Tables[name] = t
		sch.DB.Order = append(sch.DB.Order, name)
	}
	return sch
}

// ---- queries ----

// QCfg bounds one generated query.
type QCfg struct {
	MaxFrom   int // tables per FROM list
	SubDepth  int // subquery nesting depth
	SubFrom   int // tables per FROM list inside subqueries
	ForSQLite bool
	// domain exclusions for known findings (DESIGN §6); each is lifted by the pinned-witness replay only
	NoHavingOnlyAgg   bool // (unused unless a stream needs it) aggregates in HAVING are taken from the select list
	NoHavingExprKey   bool // F18: HAVING never references a GROUP BY key that is an expression (only column keys, aggregates)
	NoInSubNullItem   bool // the select item of an IN subquery is never a bare NULL literal
	NoCoalesceDecMix  bool // COALESCE never has two DECIMAL arguments of different precision/scale
	NoOuterOnlyInSub  bool // a leaf predicate inside a subquery never references outer columns only
	NoHavingOtherTab  bool // in a block with >= 2 tables HAVING aggregates only range over the first table of the FROM list
	NoHavingAliasSort bool // grouped block with HAVING: expression items are sorted by ordinal, not by alias
	NoDistinctOrdinal bool // SELECT DISTINCT is never sorted by ordinal
	NoConstFalseOnSub bool // a block with a constant-false ON condition has no subquery
	NoHashDecScaleMix bool // DECIMAL values compared by hashing (IN subquery, set operations, DISTINCT) all have scale 2; no BOOLEAN paired with INT there
	NoIntDecEquality  bool // INT = DECIMAL / INT <=> DECIMAL between columns is not generated (inequalities are)
	NoDecScaleCompare bool // both operands of a DECIMAL comparison have scale 2
	NoNullArith       bool // a NULL literal is never an arithmetic operand (typed DOUBLE by this engine: float territory)
	NoOnNullableInner bool // after a LEFT JOIN, the ON of a later INNER JOIN does not reference the LEFT JOIN's right table
	NoRangeJoinOn     bool // an ON condition never has x BETWEEN <column> AND <column> (range-heap join shape)
	NoInnerAfterOuter bool // join chains have the shape [RIGHT] (INNER|CROSS)* (LEFT)*: no inner/cross/right join after an outer join
}

type tabRef struct {
	alias string
	t     *Table
}

// Gen generates queries over a schema.
type Gen struct {
	rnd   *rand.Rand
	db    *DB
	cfg   QCfg
	alias int
	// noSumInt: inside set-operation arms SUM over INT is not generated, because this engine types
	// it DOUBLE and unifies INT with DOUBLE columns of a set operation to CHAR (reported separately)
	noSumInt bool
	// noNullLit: no NULL literals inside set-operation arms' select items (a NULL-typed arm column is
	// unified to CHAR by this engine, same reported class)
	noNullLit bool
	// simple: DECIMAL expressions are restricted to scale-2 forms (column, literal, + / - of those,
	// IFNULL / COALESCE over columns) while select items that take part in hash comparisons are generated
	simple bool
	// subLevel > 0 while a subquery block is generated: no SUM over DECIMAL there (this engine types SUM
	// DOUBLE; DECIMAL vs DOUBLE comparisons belong to the hash-equality finding)
	subLevel int
	inOn     bool // an ON condition is being generated
}

// NewGen makes a query generator.
func NewGen(rnd *rand.Rand, db *DB, cfg QCfg) *Gen { return &Gen{rnd: rnd, db: db, cfg: cfg} }

type gctx struct {
	local   []tabRef // tables visible in this block (a prefix while generating ON)
	outer   []tabRef // tables of enclosing blocks (correlation)
	depth   int      // remaining subquery depth
	corrPct int      // chance that a column reference goes to an outer table
	subIn   string   // where a subquery generated now would sit (evidence only)
}

func (g *Gen) pct(p int) bool { return g.rnd.Intn(100) < p }

func (g *Gen) newAlias() string {
	g.alias++
	return fmt.Sprintf("x%d", g.alias)
}

func (g *Gen) pickTable() *Table {
	return g.db.Tables[g.db.Order[g.rnd.Intn(len(g.db.Order))]]
}

func lit(v Val, t Type) *Expr { return &Expr{Op: "lit", T: t, V: v} }

func (g *Gen) intLit() *Expr {
	if g.pct(3) && !g.noNullLit {
		return lit(Null, TInt)
	}
	return lit(IntVal(intPool[g.rnd.Intn(len(intPool))]), TInt)
}

func (g *Gen) decLit() *Expr {
	if g.pct(3) && !g.noNullLit {
		return lit(Null, TDec)
	}
	p := decPool
	if g.cfg.ForSQLite {
		p = decPoolB
	}
	return lit(DecVal(p[g.rnd.Intn(len(p))]), TDec)
}

func (g *Gen) strLit() *Expr {
	if g.pct(3) && !g.noNullLit {
		return lit(Null, TStr)
	}
	return lit(StrVal(strPool[g.rnd.Intn(len(strPool))]), TStr)
}

// col picks a column of family t from the visible tables.
func (g *Gen) col(c *gctx, t Type) *Expr {
	refs := c.local
	if len(c.outer) > 0 && (len(refs) == 0 || g.pct(c.corrPct)) {
		refs = c.outer
	}
	r := refs[g.rnd.Intn(len(refs))]
	var names []string
	for _, cd := range r.t.Cols {
		if cd.T == t {
			names = append(names, cd.Name)
		}
	}
	if t == TInt && len(names) == 3 && g.pct(60) {
		names = names[1:] // prefer a, b over id
	}
	return &Expr{Op: "col", T: t, Tab: r.alias, Col: names[g.rnd.Intn(len(names))]}
}

// num generates a numeric expression of family t (TInt or TDec).
func (g *Gen) num(c *gctx, t Type, depth int) *Expr {
	if t == TDec && g.simple && g.cfg.NoHashDecScaleMix {
		switch x := g.rnd.Intn(100); {
		case x < 60 || depth <= 0:
			if g.pct(12) {
				return g.decLit()
			}
			return g.col(c, TDec)
		case x < 80:
			r := g.col(c, TDec)
			if g.pct(40) {
				r = g.decLit()
			}
			return &Expr{Op: "arith", T: TDec, Sym: []string{"+", "-"}[g.rnd.Intn(2)], Args: []*Expr{g.col(c, TDec), r}}
		case x < 90:
			return &Expr{Op: "ifnull", T: TDec, Args: []*Expr{g.col(c, TDec), g.col(c, TDec)}}
		}
		return &Expr{Op: "coalesce", T: TDec, Args: []*Expr{g.col(c, TDec), g.col(c, TDec)}}
	}
	if depth <= 0 || g.pct(45) {
		if g.pct(18) {
			if t == TInt {
				return g.intLit()
			}
			return g.decLit()
		}
		return g.col(c, t)
	}
	switch x := g.rnd.Intn(100); {
	case x < 45:
		sym := []string{"+", "-", "*"}[g.rnd.Intn(3)]
		l := g.num(c, t, depth-1)
		rt := t
		if t == TDec && g.pct(50) {
			rt = TInt
		}
		r := g.num(c, rt, depth-1)
		if g.pct(50) {
			l, r = r, l
		}
		if g.cfg.NoNullArith {
			if l.Op == "lit" && l.V.IsNull() {
				l = g.col(c, l.T)
			}
			if r.Op == "lit" && r.V.IsNull() {
				r = g.col(c, r.T)
			}
		}
		return &Expr{Op: "arith", T: t, Sym: sym, Args: []*Expr{l, r}}
	case x < 62:
		args := []*Expr{g.pred(c, depth-1), g.num(c, t, depth-1)}
		if g.pct(40) {
			args = append(args, g.pred(c, depth-1), g.num(c, t, depth-1))
		}
		if g.pct(70) {
			et := t
			if t == TDec && g.pct(30) {
				et = TInt
			}
			args = append(args, g.num(c, et, depth-1))
		}
		// at least one value branch is not a NULL literal (a NULL-only CASE is a NULL-typed expression)
		allNull := true
		for i := 1; i < len(args); i += 2 {
			if !(args[i].Op == "lit" && args[i].V.IsNull()) {
				allNull = false
			}
		}
		if len(args)%2 == 1 && !(args[len(args)-1].Op == "lit" && args[len(args)-1].V.IsNull()) {
			allNull = false
		}
		if allNull {
			args[1] = g.col(c, t)
		}
		return &Expr{Op: "case", T: t, Args: args}
	case x < 75:
		n := 2 + g.rnd.Intn(2)
		var args []*Expr
		for i := 0; i < n; i++ {
			at := t
			if t == TDec && i > 0 && g.pct(30) {
				at = TInt
			}
			if at == TDec && g.cfg.NoCoalesceDecMix {
				args = append(args, g.col(c, TDec)) // every DECIMAL argument is a DECIMAL(8,2) column
				continue
			}
			args = append(args, g.num(c, at, depth-1))
		}
		return &Expr{Op: "coalesce", T: t, Args: args}
	case x < 84:
		return &Expr{Op: "ifnull", T: t, Args: []*Expr{g.num(c, t, depth-1), g.num(c, t, depth-1)}}
	}
	// scalar subqueries are never generated inside arithmetic / CASE / COALESCE: this engine types
	// SUM as DOUBLE, so such expressions leave exact arithmetic (guard: no float arithmetic). They
	// appear only as a direct comparison operand (pred) or as a whole select item (itemOfType).
	return g.col(c, t)
}

// str generates a string expression: a column, or (compound=true) COALESCE / CASE over columns
// only, so that every operand carries the same binary collation.
func (g *Gen) str(c *gctx, compound bool) *Expr {
	if !compound || g.pct(60) {
		return g.col(c, TStr)
	}
	if g.pct(50) {
		return &Expr{Op: "coalesce", T: TStr, Args: []*Expr{g.col(c, TStr), g.col(c, TStr)}}
	}
	return &Expr{Op: "case", T: TStr, Args: []*Expr{g.pred(c, 0), g.col(c, TStr), g.col(c, TStr)}}
}

var cmpSyms = []string{"=", "=", "=", "<>", "<", "<=", ">", ">=", "<=>"}

// pred generates a predicate. Inside a subquery a leaf predicate that would reference outer
// columns only is regenerated over the local tables (NoOuterOnlyInSub).
func (g *Gen) pred(c *gctx, depth int) *Expr {
	e := g.pred0(c, depth)
	if g.cfg.NoOuterOnlyInSub && len(c.outer) > 0 && len(c.local) > 0 && e.Op != "and" && e.Op != "or" && e.Op != "not" {
		local := e.Op == "exists"
		for _, r := range c.local {
			alias := r.alias
			e.walkShallow(func(x *Expr) {
				if x.Op == "col" && x.Tab == alias {
					local = true
				}
			})
		}
		if !local {
			lc := *c
			lc.outer = nil
			return g.pred0(&lc, 0)
		}
	}
	return e
}

func (g *Gen) pred0(c *gctx, depth int) *Expr {
	if depth > 0 && g.pct(40) {
		switch x := g.rnd.Intn(10); {
		case x < 4:
			return &Expr{Op: "and", T: TBool, Args: []*Expr{g.pred(c, depth-1), g.pred(c, depth-1)}}
		case x < 8:
			return &Expr{Op: "or", T: TBool, Args: []*Expr{g.pred(c, depth-1), g.pred(c, depth-1)}}
		}
		return &Expr{Op: "not", T: TBool, Args: []*Expr{g.pred(c, depth-1)}}
	}
	x := g.rnd.Intn(100)
	if c.depth > 0 && x < 34 {
		switch y := g.rnd.Intn(10); {
		case y < 5:
			return g.inSub(c)
		case y < 8:
			return g.exists(c)
		}
		t := g.numType()
		return &Expr{Op: "cmp", T: TBool, Sym: cmpSyms[g.rnd.Intn(len(cmpSyms))], Args: []*Expr{g.nonLit(c, g.num(c, t, 0)), g.scalarSub(c, t)}}
	}
	switch {
	case x < 62:
		return g.cmp(c, depth)
	case x < 72:
		return &Expr{Op: "isnull", T: TBool, Not: g.pct(50), Args: []*Expr{g.nonLit(c, g.anyExpr(c, 0))}}
	case x < 82:
		return g.between(c)
	default:
		return g.inList(c)
	}
}

func (g *Gen) numType() Type {
	if g.pct(70) {
		return TInt
	}
	return TDec
}

func (g *Gen) anyExpr(c *gctx, depth int) *Expr {
	switch x := g.rnd.Intn(10); {
	case x < 5:
		return g.num(c, TInt, depth)
	case x < 8:
		return g.num(c, TDec, depth)
	}
	return g.col(c, TStr)
}

// nonNull replaces a NULL literal by a column (NoNullArith).
func (g *Gen) nonNull(c *gctx, e *Expr) *Expr {
	if g.cfg.NoNullArith && e.Op == "lit" && e.V.IsNull() {
		return g.col(c, e.T)
	}
	return e
}

// nonLit replaces a literal by a column of the same family: comparisons, BETWEEN and IN never have
// a constant left operand, so no predicate folds to a constant (the deliberate ON (1 = 0) aside).
func (g *Gen) nonLit(c *gctx, e *Expr) *Expr {
	hasCol := false
	e.walk(func(x *Expr) {
		if x.Op == "col" {
			hasCol = true
		}
	})
	if !hasCol {
		t := e.T
		if t == TBool {
			t = TInt
		}
		return g.col(c, t)
	}
	return e
}

// localCtx is c without its outer tables: inside a subquery the tested operand of BETWEEN / IN (list)
// is local, so that no implied comparison references outer columns only (NoOuterOnlyInSub).
func (g *Gen) localCtx(c *gctx) *gctx {
	if g.cfg.NoOuterOnlyInSub && len(c.outer) > 0 && len(c.local) > 0 {
		lc := *c
		lc.outer = nil
		lc.depth = 0
		return &lc
	}
	return c
}

func (g *Gen) cmp(c *gctx, depth int) *Expr {
	sym := cmpSyms[g.rnd.Intn(len(cmpSyms))]
	var l, r *Expr
	switch x := g.rnd.Intn(100); {
	case x < 50: // int vs int
		l = g.nonLit(c, g.num(c, TInt, depth))
		if g.pct(35) {
			r = g.intLit()
		} else {
			r = g.num(c, TInt, depth)
		}
	case x < 70: // dec vs dec / dec literal / int literal
		old := g.simple
		g.simple = g.simple || g.cfg.NoDecScaleCompare
		l = g.nonLit(c, g.num(c, TDec, depth))
		switch {
		case g.pct(30):
			r = g.decLit()
		case g.pct(15):
			r = g.intLit()
		default:
			r = g.num(c, TDec, depth)
		}
		g.simple = old
	case x < 80: // int expression vs dec expression (no literal on either side)
		l = g.col(c, TInt)
		r = g.col(c, TDec)
		if g.cfg.NoIntDecEquality {
			for sym == "=" || sym == "<=>" {
				sym = cmpSyms[g.rnd.Intn(len(cmpSyms))]
			}
		}
	default: // strings: column vs column or column vs literal
		l = g.col(c, TStr)
		if g.pct(50) {
			r = g.strLit()
		} else {
			r = g.col(c, TStr)
		}
	}
	if g.pct(30) {
		l, r = r, l
		switch sym {
		case "<":
			sym = ">"
		case ">":
			sym = "<"
		case "<=":
			sym = ">="
		case ">=":
			sym = "<="
		}
	}
	return &Expr{Op: "cmp", T: TBool, Sym: sym, Args: []*Expr{l, r}}
}

func (g *Gen) between(c *gctx) *Expr {
	e := &Expr{Op: "between", T: TBool, Not: g.pct(30)}
	xc := g.localCtx(c)
	switch x := g.rnd.Intn(10); {
	case x < 5:
		lo, hi := g.intLit(), g.intLit()
		if g.pct(40) {
			lo = g.col(c, TInt)
		}
		if g.pct(30) {
			h := g.col(c, TInt)
			if !(g.inOn && g.cfg.NoRangeJoinOn && lo.Op == "col") {
				hi = h
			}
		}
		e.Args = []*Expr{g.nonLit(xc, g.num(xc, TInt, 1)), lo, hi}
	case x < 8:
		lo, hi := g.decLit(), g.decLit()
		if g.pct(30) {
			hi = g.col(c, TDec)
		}
		e.Args = []*Expr{g.col(xc, TDec), lo, hi}
	default:
		e.Args = []*Expr{g.col(xc, TStr), g.strLit(), g.strLit()}
	}
	return e
}

func (g *Gen) inList(c *gctx) *Expr {
	e := &Expr{Op: "inlist", T: TBool, Not: g.pct(40)}
	n := 1 + g.rnd.Intn(4)
	xc := g.localCtx(c)
	switch x := g.rnd.Intn(10); {
	case x < 6:
		e.Args = []*Expr{g.nonLit(xc, g.num(xc, TInt, 1))}
		for i := 0; i < n; i++ {
			if g.pct(20) {
				e.Args = append(e.Args, g.col(c, TInt))
			} else {
				e.Args = append(e.Args, g.intLit())
			}
		}
	case x < 8:
		e.Args = []*Expr{g.col(xc, TDec)}
		for i := 0; i < n; i++ {
			e.Args = append(e.Args, g.decLit())
		}
	default:
		e.Args = []*Expr{g.col(xc, TStr)}
		for i := 0; i < n; i++ {
			e.Args = append(e.Args, g.strLit())
		}
	}
	return e
}

// subCtx is the context of a subquery's block: the current tables become outer ones.
func (g *Gen) subCtx(c *gctx) *gctx {
	outer := append(append([]tabRef{}, c.local...), c.outer...)
	return &gctx{outer: outer, depth: c.depth - 1, corrPct: 35}
}

func (g *Gen) inSub(c *gctx) *Expr {
	var t Type
	switch x := g.rnd.Intn(10); {
	case x < 6:
		t = TInt
	case x < 8:
		t = TDec
	default:
		t = TStr
	}
	var l *Expr
	if t == TStr {
		l = g.col(c, TStr)
	} else {
		old := g.simple
		g.simple = t == TDec
		l = g.nonLit(c, g.num(c, t, 1))
		g.simple = old
	}
	q := g.selectBlock(g.subCtx(c), blockOpts{want: []Type{t}, sub: true, simple: t == TDec})
	if g.cfg.NoInSubNullItem && q.Items[0].E.Op == "lit" && q.Items[0].E.V.IsNull() {
		q.Items[0].E = g.col(&gctx{local: []tabRef{{q.From[0].Alias, g.db.Tables[q.From[0].Table]}}}, t)
	}
	return &Expr{Op: "insub", T: TBool, Not: g.pct(50), Args: []*Expr{l}, Q: q}
}

func (g *Gen) exists(c *gctx) *Expr {
	sc := g.subCtx(c)
	sc.corrPct = 50
	q := g.selectBlock(sc, blockOpts{sub: true, exists: true})
	return &Expr{Op: "exists", T: TBool, Not: g.pct(45), Q: q}
}

// scalarSub is an aggregate without GROUP BY: exactly one row. AVG is never used (rounding).
func (g *Gen) scalarSub(c *gctx, t Type) *Expr {
	q := g.selectBlock(g.subCtx(c), blockOpts{want: []Type{t}, sub: true, scalar: true, simple: t == TDec && g.cfg.NoDecScaleCompare})
	return &Expr{Op: "ssub", T: t, Q: q}
}

type blockOpts struct {
	want    []Type // required output families (set-operation right branch, IN subquery)
	sub     bool   // inside a subquery
	exists  bool
	scalar  bool // one aggregate, no GROUP BY
	noAvg   bool
	plain   bool // no DISTINCT / grouping (used for compound strings)
	setArm  bool
	nTables int
	simple  bool   // items take part in hash comparisons: scale-2 decimals only
	dup     bool   // one or two plain low-cardinality columns, no grouping (duplicate rows for set operations)
	mirror  *Query // INTERSECT right arm: same first table and column items as this block, so rows can coincide
}

// aggExpr generates one aggregate call whose result family is t (TInt, TDec or TStr).
func (g *Gen) aggExpr(c *gctx, t Type, allowAvg bool) (*Expr, bool) {
	ac := &gctx{local: c.local, outer: nil, depth: 0}
	switch t {
	case TStr:
		fn := []string{"MIN", "MAX"}[g.rnd.Intn(2)]
		return &Expr{Op: "agg", T: TStr, Sym: fn, Args: []*Expr{g.col(ac, TStr)}}, false
	case TDec:
		x := g.rnd.Intn(100)
		if allowAvg && x < 25 {
			at := g.numType()
			dist := g.pct(10)
			old := g.simple
			g.simple = g.simple || dist
			arg := g.nonLit(ac, g.num(ac, at, 1))
			g.simple = old
			return &Expr{Op: "agg", T: TDec, Sym: "AVG", Args: []*Expr{arg}, Distinct: dist}, true
		}
		fn := []string{"SUM", "MIN", "MAX"}[g.rnd.Intn(3)]
		if g.subLevel > 0 && g.cfg.NoHashDecScaleMix && fn == "SUM" {
			fn = "MAX"
		}
		return &Expr{Op: "agg", T: TDec, Sym: fn, Args: []*Expr{g.nonLit(ac, g.num(ac, TDec, 1))}}, false
	}
	switch x := g.rnd.Intn(100); {
	case x < 25:
		return &Expr{Op: "agg", T: TInt, Sym: "COUNT", Star: true}, false
	case x < 45:
		dist := g.pct(40)
		old := g.simple
		g.simple = g.simple || dist
		arg := g.nonLit(ac, g.anyExpr(ac, 0))
		g.simple = old
		return &Expr{Op: "agg", T: TInt, Sym: "COUNT", Distinct: dist, Args: []*Expr{arg}}, false
	case x < 70 && !g.noSumInt:
		return &Expr{Op: "agg", T: TInt, Sym: "SUM", Distinct: g.pct(15), Args: []*Expr{g.nonLit(ac, g.num(ac, TInt, 1))}}, false
	}
	fn := []string{"MIN", "MAX"}[g.rnd.Intn(2)]
	return &Expr{Op: "agg", T: TInt, Sym: fn, Args: []*Expr{g.nonLit(ac, g.num(ac, TInt, 1))}}, false
}

// selectBlock generates one SELECT block.
func (g *Gen) selectBlock(c *gctx, o blockOpts) *Query {
	q := &Query{Limit: -1, Offset: -1}
	if o.sub {
		g.subLevel++
		defer func() { g.subLevel-- }()
	}
	maxFrom := g.cfg.MaxFrom
	if o.sub {
		maxFrom = g.cfg.SubFrom
	}
	n := 1
	if maxFrom > 1 {
		switch x := g.rnd.Intn(100); {
		case x < 40:
			n = 1
		case x < 85 || maxFrom == 2:
			n = 2
		case x < 95 || maxFrom == 3:
			n = 3
		default:
			n = 4
		}
		if n > maxFrom {
			n = maxFrom
		}
	}
	if o.nTables > 0 {
		n = o.nTables
	}
	// FROM and joins
	depth0 := c.depth
	for k := 0; k < n; k++ {
		t := g.pickTable()
		if k == 0 && o.mirror != nil {
			t = g.db.Tables[o.mirror.From[0].Table]
		}
		f := &FromItem{Table: t.Name, Alias: g.newAlias()}
		c.local = append(c.local, tabRef{f.Alias, t})
		if k > 0 {
			switch x := g.rnd.Intn(100); {
			case x < 35:
				f.Join = "INNER"
			case x < 70:
				f.Join = "LEFT"
			case x < 85:
				f.Join = "RIGHT"
			default:
				f.Join = "CROSS"
			}
			if g.cfg.NoInnerAfterOuter {
				outerSeen := false
				for _, p := range q.From {
					if p.Join == "LEFT" || p.Join == "RIGHT" {
						outerSeen = true
					}
				}
				if outerSeen {
					f.Join = "LEFT"
				} else if f.Join == "RIGHT" && k > 1 {
					f.Join = "INNER"
				}
			}
			if f.Join != "CROSS" {
				f.On = g.onPred(c)
				if g.cfg.NoOnNullableInner && f.Join == "INNER" {
					for try := 0; try < 8 && refsNullable(f.On, q.From); try++ {
						f.On = g.onPred(c)
					}
					if refsNullable(f.On, q.From) {
						f.Join, f.On = "CROSS", nil
					}
				}
				if g.cfg.NoConstFalseOnSub && f.On != nil && f.On.Op == "cmp" && f.On.Args[0].Op == "lit" && f.On.Args[1].Op == "lit" {
					if o.sub || (depth0 > 0 && g.pct(50)) {
						f.On = g.onEq(c) // keep the subqueries, give up the constant-false ON
					} else {
						c.depth = 0 // keep the constant-false ON: this block gets no subquery
					}
				}
			}
		}
		q.From = append(q.From, f)
	}
	// WHERE
	if o.mirror != nil && g.pct(55) {
		// mirrored set-operation arm without a filter: rows coincide with the other arm's
	} else if g.pct(70) || (o.sub && len(c.outer) > 0 && g.pct(60)) {
		c.subIn = "where"
		q.Where = g.pred(c, 2)
	}
	switch {
	case o.scalar:
		q.Grouped = true
		oldS := g.simple
		g.simple = g.simple || o.simple
		e, _ := g.aggExpr(c, o.want[0], false)
		g.simple = oldS
		q.Items = []*Item{{E: e, Alias: "c0"}}
		return q
	case o.exists:
		if g.pct(60) {
			q.Items = []*Item{{E: lit(IntVal(1), TInt), Alias: "c0"}}
		} else {
			q.Items = []*Item{{E: g.anyExpr(&gctx{local: c.local}, 0), Alias: "c0"}}
		}
		if g.pct(15) {
			g.makeGrouped(c, q, o)
			if len(q.GroupBy) == 0 && q.Having == nil {
				q.Grouped = false // no aggregate anywhere: an ordinary block
			}
		}
		return q
	}
	grouped := !o.plain && o.mirror == nil && !o.dup && g.pct(30)
	oldSimple := g.simple
	defer func() { g.simple = oldSimple }()
	if grouped {
		g.simple = o.simple || o.setArm
		g.makeGrouped(c, q, o)
	} else {
		if !o.plain && g.pct(18) {
			q.Distinct = true
		}
		g.simple = o.simple || o.setArm || q.Distinct
		g.plainItems(c, q, o)
	}
	return q
}

// onEq is a plain equi-join condition.
func (g *Gen) onEq(c *gctx) *Expr {
	nc := &gctx{local: c.local[len(c.local)-1:], depth: 0}
	oc := &gctx{local: c.local[:len(c.local)-1], depth: 0}
	return &Expr{Op: "cmp", T: TBool, Sym: "=", Args: []*Expr{g.col(oc, TInt), g.col(nc, TInt)}}
}

// onPred: mostly an equality between a column of the newly joined table and an earlier one.
func (g *Gen) onPred(c *gctx) *Expr {
	g.inOn = true
	defer func() { g.inOn = false }()
	nc := &gctx{local: c.local[len(c.local)-1:], depth: 0}
	oc := &gctx{local: c.local[:len(c.local)-1], depth: 0}
	full := &gctx{local: c.local, outer: c.outer, depth: 0, corrPct: 10}
	switch x := g.rnd.Intn(100); {
	case x < 60:
		t := TInt
		if g.pct(15) {
			t = TStr
		} else if g.pct(10) {
			t = TDec
		}
		e := &Expr{Op: "cmp", T: TBool, Sym: "=", Args: []*Expr{g.col(oc, t), g.col(nc, t)}}
		if g.pct(8) {
			e.Sym = "<=>"
		}
		if g.pct(30) {
			return &Expr{Op: "and", T: TBool, Args: []*Expr{e, g.pred(full, 0)}}
		}
		return e
	case x < 66:
		return &Expr{Op: "cmp", T: TBool, Sym: "=", Args: []*Expr{lit(IntVal(1), TInt), lit(IntVal(0), TInt)}}
	case x < 74:
		return g.pred(nc, 0) // references the right side only
	case x < 80:
		return g.pred(oc, 0) // references the left side only
	case x < 88:
		e := &Expr{Op: "cmp", T: TBool, Sym: []string{"<", "<=", ">", ">=", "<>"}[g.rnd.Intn(5)], Args: []*Expr{g.col(oc, TInt), g.col(nc, TInt)}}
		return e
	}
	if c.depth > 0 && g.pct(25) {
		full.depth = c.depth
		full.subIn = "on"
	}
	return g.pred(full, 1)
}

func (g *Gen) itemOfType(c *gctx, t Type, o blockOpts) *Expr {
	ic := &gctx{local: c.local, outer: c.outer, depth: 0, corrPct: 0}
	if c.depth > 0 && !o.sub && g.pct(12) {
		ic.depth = c.depth
	}
	if ic.depth > 0 && (t == TInt || t == TDec) && g.pct(50) {
		return g.scalarSub(ic, t)
	}
	switch t {
	case TInt:
		return g.num(ic, TInt, 2)
	case TDec:
		return g.num(ic, TDec, 2)
	case TStr:
		return g.str(ic, o.plain)
	}
	return g.pred(ic, 1)
}

func (g *Gen) randType() Type {
	switch x := g.rnd.Intn(100); {
	case x < 45:
		return TInt
	case x < 65:
		return TDec
	case x < 85:
		return TStr
	}
	return TBool
}

func (g *Gen) plainItems(c *gctx, q *Query, o blockOpts) {
	if len(o.want) > 0 {
		for i, t := range o.want {
			if o.mirror != nil && !o.mirror.Grouped && len(o.mirror.From) == 1 && g.pct(90) {
				if e, ok := cloneRename(o.mirror.Items[i].E, o.mirror.From[0].Alias, c.local[0].alias); ok {
					q.Items = append(q.Items, &Item{E: e, Alias: fmt.Sprintf("c%d", i)})
					continue
				}
			}
			q.Items = append(q.Items, &Item{E: g.itemOfType(c, t, o), Alias: fmt.Sprintf("c%d", i)})
		}
		return
	}
	if !o.sub && !o.setArm && g.pct(8) {
		q.Star = true
		i := 0
		for _, r := range c.local {
			for _, cd := range r.t.Cols {
				q.Items = append(q.Items, &Item{E: &Expr{Op: "col", T: cd.T, Tab: r.alias, Col: cd.Name}, Alias: fmt.Sprintf("c%d", i)})
				i++
			}
		}
		return
	}
	if o.dup {
		n := 1 + g.rnd.Intn(2)
		for i := 0; i < n; i++ {
			t := []Type{TInt, TInt, TStr}[g.rnd.Intn(3)]
			col := "s"
			if t == TInt {
				col = []string{"a", "b"}[g.rnd.Intn(2)]
			}
			q.Items = append(q.Items, &Item{E: &Expr{Op: "col", T: t, Tab: c.local[0].alias, Col: col}, Alias: fmt.Sprintf("c%d", i)})
		}
		return
	}
	n := 1 + g.rnd.Intn(4)
	for i := 0; i < n; i++ {
		t := g.randType()
		if o.setArm && t == TBool {
			t = TInt // set-operation arms stay inside one family per column (no boolean vs integer columns)
		}
		q.Items = append(q.Items, &Item{E: g.itemOfType(c, t, o), Alias: fmt.Sprintf("c%d", i)})
	}
}

// makeGrouped turns the block into a grouped one: GROUP BY keys, aggregate items, HAVING.
func (g *Gen) makeGrouped(c *gctx, q *Query, o blockOpts) {
	q.Grouped = true
	kc := &gctx{local: c.local, depth: 0}
	nk := 0
	switch x := g.rnd.Intn(100); {
	case x < 25:
		nk = 0
	case x < 80:
		nk = 1
	default:
		nk = 2
	}
	for i := 0; i < nk; i++ {
		var k *Expr
		switch x := g.rnd.Intn(100); {
		case x < 70:
			k = g.col(kc, []Type{TInt, TInt, TDec, TStr}[g.rnd.Intn(4)])
		case x < 90:
			k = &Expr{Op: "arith", T: TInt, Sym: []string{"+", "-", "*"}[g.rnd.Intn(3)], Args: []*Expr{g.col(kc, TInt), g.nonNull(kc, g.num(kc, TInt, 0))}}
		default:
			k = &Expr{Op: "isnull", T: TBool, Args: []*Expr{g.anyExpr(kc, 0)}}
		}
		dup := false
		for _, old := range q.GroupBy {
			if old.SQL(MySQL) == k.SQL(MySQL) {
				dup = true
			}
		}
		if !dup {
			q.GroupBy = append(q.GroupBy, k)
		}
	}
	allowAvg := !o.sub && !o.setArm && !o.noAvg && len(o.want) == 0
	// one grouped item of family t
	item := func(t Type) (*Expr, bool) {
		var keys []*Expr
		for _, k := range q.GroupBy {
			kt := k.T
			if kt == TBool && !(g.cfg.NoHashDecScaleMix && (o.setArm || len(o.want) > 0)) {
				kt = TInt
			}
			if kt == t {
				keys = append(keys, k)
			}
		}
		if len(keys) > 0 && g.pct(45) {
			return keys[g.rnd.Intn(len(keys))], false
		}
		if t == TInt && g.pct(22) {
			// arithmetic / comparison inside the integer family only (SUM over INT is a double in this engine)
			l, _ := g.aggExpr(c, TInt, false)
			var r *Expr
			switch {
			case len(keys) > 0 && g.pct(40):
				r = keys[g.rnd.Intn(len(keys))]
			case g.pct(50):
				r = g.nonNull(&gctx{local: c.local}, g.intLit())
				if r.Op == "col" {
					r = lit(IntVal(2), TInt)
				}
			default:
				r, _ = g.aggExpr(c, TInt, false)
			}
			return &Expr{Op: "arith", T: TInt, Sym: []string{"+", "-", "*"}[g.rnd.Intn(3)], Args: []*Expr{l, r}}, false
		}
		return g.aggExpr(c, t, allowAvg)
	}
	if o.exists {
		// keep the EXISTS item a literal or a key
		q.Items = []*Item{{E: lit(IntVal(1), TInt), Alias: "c0"}}
		if len(q.GroupBy) > 0 {
			q.Items[0].E = q.GroupBy[0]
		}
	} else if len(o.want) > 0 {
		for i, t := range o.want {
			if t == TBool {
				t = TInt
			}
			e, _ := item(t)
			q.Items = append(q.Items, &Item{E: e, Alias: fmt.Sprintf("c%d", i)})
		}
	} else {
		n := 1 + g.rnd.Intn(4)
		for i := 0; i < n; i++ {
			t := []Type{TInt, TInt, TInt, TDec, TStr}[g.rnd.Intn(5)]
			e, approx := item(t)
			q.Items = append(q.Items, &Item{E: e, Alias: fmt.Sprintf("c%d", i), Approx: approx})
		}
	}
	if g.pct(40) {
		q.Having = g.havingPred(c, q, 1)
	}
}

func (g *Gen) havingPred(c *gctx, q *Query, depth int) *Expr {
	if depth > 0 && g.pct(30) {
		op := "and"
		if g.pct(50) {
			op = "or"
		}
		return &Expr{Op: op, T: TBool, Args: []*Expr{g.havingPred(c, q, depth-1), g.havingPred(c, q, depth-1)}}
	}
	// operand: an aggregate (from the select list when the F18 exclusion is on) or a key
	var operand *Expr
	var keyOps []*Expr
	for _, k := range q.GroupBy {
		if k.Op == "col" || !g.cfg.NoHavingExprKey {
			keyOps = append(keyOps, k)
		}
	}
	if len(keyOps) > 0 && g.pct(25) {
		operand = keyOps[g.rnd.Intn(len(keyOps))]
	} else {
		var listed []*Expr
		for _, it := range q.Items {
			if it.E.Op == "agg" && it.E.Sym != "AVG" {
				if g.cfg.NoHavingOtherTab && len(c.local) > 1 && refersOther(it.E, c.local[0].alias) {
					continue
				}
				listed = append(listed, it.E)
			}
		}
		if len(listed) > 0 && (g.cfg.NoHavingOnlyAgg || g.pct(50)) {
			operand = listed[g.rnd.Intn(len(listed))]
		} else if g.cfg.NoHavingOnlyAgg {
			operand = &Expr{Op: "agg", T: TInt, Sym: "COUNT", Star: true}
		} else {
			hc := c
			if g.cfg.NoHavingOtherTab && len(c.local) > 1 {
				hc = &gctx{local: c.local[:1]}
			}
			operand, _ = g.aggExpr(hc, []Type{TInt, TInt, TDec, TStr}[g.rnd.Intn(4)], false)
		}
	}
	if g.pct(12) {
		return &Expr{Op: "isnull", T: TBool, Not: g.pct(50), Args: []*Expr{operand}}
	}
	var r *Expr
	switch operand.T {
	case TInt, TBool:
		r = g.intLit()
	case TDec:
		r = g.decLit()
	default:
		// string aggregate or key: compare with a string column key if there is one, else IS NULL
		return &Expr{Op: "isnull", T: TBool, Not: g.pct(50), Args: []*Expr{operand}}
	}
	return &Expr{Op: "cmp", T: TBool, Sym: cmpSyms[g.rnd.Intn(len(cmpSyms))], Args: []*Expr{operand, r}}
}

// cloneQuery deep-copies a select block giving every table reference it defines a fresh alias.
func (g *Gen) cloneQuery(q *Query, m map[string]string) *Query {
	c := *q
	c.From = nil
	for _, f := range q.From {
		nf := *f
		nf.Alias = g.newAlias()
		m[f.Alias] = nf.Alias
		c.From = append(c.From, &nf)
	}
	for i, f := range q.From {
		if f.On != nil {
			c.From[i].On = g.cloneExpr(f.On, m)
		}
	}
	if q.Where != nil {
		c.Where = g.cloneExpr(q.Where, m)
	}
	c.GroupBy = nil
	for _, k := range q.GroupBy {
		c.GroupBy = append(c.GroupBy, g.cloneExpr(k, m))
	}
	if q.Having != nil {
		c.Having = g.cloneExpr(q.Having, m)
	}
	c.Items = nil
	for _, it := range q.Items {
		ni := *it
		ni.E = g.cloneExpr(it.E, m)
		c.Items = append(c.Items, &ni)
	}
	c.OrderBy = append([]OrderKey{}, q.OrderBy...)
	return &c
}

func (g *Gen) cloneExpr(e *Expr, m map[string]string) *Expr {
	c := *e
	if c.Op == "col" {
		if to, ok := m[c.Tab]; ok {
			c.Tab = to
		}
	}
	c.Args = nil
	for _, a := range e.Args {
		c.Args = append(c.Args, g.cloneExpr(a, m))
	}
	if e.Q != nil {
		c.Q = g.cloneQuery(e.Q, m)
	}
	return &c
}

// cloneRename copies a subquery-free expression, renaming one table alias.
func cloneRename(e *Expr, from, to string) (*Expr, bool) {
	if e.Q != nil {
		return nil, false
	}
	c := *e
	if c.Op == "col" {
		if c.Tab != from {
			return nil, false
		}
		c.Tab = to
	}
	c.Args = nil
	for _, a := range e.Args {
		x, ok := cloneRename(a, from, to)
		if !ok {
			return nil, false
		}
		c.Args = append(c.Args, x)
	}
	return &c, true
}

// refsNullable reports whether e references a table made nullable by an earlier LEFT or RIGHT JOIN.
func refsNullable(e *Expr, from []*FromItem) bool {
	hit := false
	nullable := map[string]bool{}
	for i, f := range from {
		if f.Join == "LEFT" {
			nullable[f.Alias] = true
		}
		if f.Join == "RIGHT" {
			for _, p := range from[:i] {
				nullable[p.Alias] = true
			}
		}
	}
	e.walk(func(x *Expr) {
		if x.Op == "col" && nullable[x.Tab] {
			hit = true
		}
	})
	return hit
}

// refersOther reports whether the expression references a table alias other than first.
func refersOther(e *Expr, first string) bool {
	other := false
	e.walk(func(x *Expr) {
		if x.Op == "col" && x.Tab != first {
			other = true
		}
	})
	return other
}

// Query generates one top-level query: a block or a set operation over two blocks, with an optional
// ORDER BY on output columns and LIMIT/OFFSET (then the ORDER BY covers every output column, which
// determines the sequence completely).
func (g *Gen) Query() *Query {
	var q *Query
	if g.pct(18) {
		g.noSumInt, g.noNullLit = true, true
		defer func() { g.noSumInt, g.noNullLit = false, false }()
		lc := &gctx{depth: g.cfg.SubDepth}
		// a third of the set operations get arms with one or two low-cardinality plain columns, so that
		// duplicate rows (the ALL / DISTINCT multiplicity rules) really occur
		dup := g.pct(35)
		l := g.selectBlock(lc, blockOpts{setArm: true, noAvg: true, dup: dup})
		var want []Type
		for _, it := range l.Items {
			t := it.E.T
			if t == TBool {
				t = TInt
			}
			want = append(want, t)
		}
		// the left arm's families are normalised the same way
		op := []string{"UNION", "UNION", "INTERSECT", "INTERSECT", "EXCEPT", "EXCEPT"}[g.rnd.Intn(6)]
		rc := &gctx{depth: g.cfg.SubDepth}
		ro := blockOpts{want: want, setArm: true, noAvg: true}
		if op != "UNION" && g.pct(70) {
			ro.mirror = l // INTERSECT / EXCEPT arms over the same table, so that rows do coincide
		}
		var r *Query
		if op == "INTERSECT" && l.SetOp == "" && g.pct(55) {
			// the right arm is a copy of the left one (fresh aliases) with its WHERE dropped or redrawn,
			// so that the intersection is non-empty whenever the left arm is
			r = g.cloneQuery(l, map[string]string{})
			if !l.Grouped || g.pct(50) {
				r.Where = nil
				if g.pct(40) {
					var loc []tabRef
					for _, f := range r.From {
						loc = append(loc, tabRef{f.Alias, g.db.Tables[f.Table]})
					}
					r.Where = g.pred(&gctx{local: loc}, 1)
				}
			}
		} else {
			r = g.selectBlock(rc, ro)
		}
		all := g.pct(45)
		if g.cfg.ForSQLite && op != "UNION" {
			all = false
		}
		q = &Query{SetOp: op, All: all, L: l, R: r, Limit: -1, Offset: -1}
	} else {
		c := &gctx{depth: g.cfg.SubDepth}
		q = g.selectBlock(c, blockOpts{plain: g.pct(12)})
	}
	// columns never used as sort keys: AVG (rounding) and compound string expressions
	noKey := q.ApproxCols()
	approx := false
	if q.SetOp == "" {
		for i, it := range q.Items {
			if it.E.T == TStr && it.E.Op != "col" && it.E.Op != "agg" {
				noKey[i] = true
			}
		}
	}
	for _, a := range noKey {
		approx = approx || a
	}
	w := q.Width()
	if g.pct(50) {
		ordinal := q.Star || (q.SetOp == "" && g.pct(25))
		if g.cfg.NoDistinctOrdinal && q.SetOp == "" && q.Distinct {
			if q.Star {
				return q // SELECT DISTINCT * has no aliases to sort by
			}
			ordinal = false
		}
		defer func() {
			if g.cfg.NoHavingAliasSort && q.SetOp == "" && q.Grouped && q.Having != nil {
				for i := range q.OrderBy {
					if op := q.Items[q.OrderBy[i].Item].E.Op; op != "col" && op != "agg" {
						q.OrderBy[i].Ordinal = true
					}
				}
			}
		}()
		if !approx && g.pct(45) {
			// total order + LIMIT
			perm := g.rnd.Perm(w)
			for _, i := range perm {
				q.OrderBy = append(q.OrderBy, OrderKey{Item: i, Desc: g.pct(40), Ordinal: ordinal})
			}
			q.Limit = []int{0, 1, 2, 3, 5, 8, 100}[g.rnd.Intn(7)]
			if g.pct(50) {
				q.Offset = []int{0, 1, 2, 4, 50}[g.rnd.Intn(5)]
			}
		} else {
			n := 1 + g.rnd.Intn(2)
			perm := g.rnd.Perm(w)
			for _, i := range perm {
				if len(q.OrderBy) >= n {
					break
				}
				if noKey[i] {
					continue
				}
				q.OrderBy = append(q.OrderBy, OrderKey{Item: i, Desc: g.pct(40), Ordinal: ordinal})
			}
		}
	}
	return q
}
