package g7lib

import (
	"fmt"
	"math/rand"
	"sort"
	"strings"
)

// Cfg08 carries the domain exclusions of the C08 generator (known findings, DESIGN §6).
type Cfg08 struct {
	NoRangeNullKey bool // F21: RANGE / default frames are ordered by the NOT NULL key k only
	NoRangeDesc    bool // RANGE / default frames are ordered ascending only
}

// Gen08 generates C08 statements over the table w.
type Gen08 struct {
	rnd  *rand.Rand
	rows [][]Val
	cfg  Cfg08
}

func NewGen08(rnd *rand.Rand, rows [][]Val, cfg Cfg08) *Gen08 {
	return &Gen08{rnd: rnd, rows: rows, cfg: cfg}
}

func (g *Gen08) pct(p int) bool { return g.rnd.Intn(100) < p }

func (g *Gen08) pick(xs ...string) string { return xs[g.rnd.Intn(len(xs))] }

type filter08 struct {
	sql  string
	keep func(r []Val) bool
}

func (g *Gen08) filter() filter08 {
	switch x := g.rnd.Intn(100); {
	case x < 55:
		return filter08{"", func([]Val) bool { return true }}
	case x < 63:
		return filter08{" WHERE id < (-100)", func([]Val) bool { return false }}
	case x < 75:
		return filter08{" WHERE v IS NOT NULL", func(r []Val) bool { return !r[wV].IsNull() }}
	case x < 85:
		return filter08{" WHERE p = 0", func(r []Val) bool { return !r[wP].IsNull() && r[wP].N.Sign() == 0 }}
	case x < 93:
		return filter08{" WHERE o IS NULL", func(r []Val) bool { return r[wO].IsNull() }}
	}
	return filter08{" WHERE k >= 2", func(r []Val) bool { return r[wK].N.Cmp(ratInt(2)) >= 0 }}
}

func (g *Gen08) input(f filter08) [][]Val {
	var out [][]Val
	for _, r := range g.rows {
		if f.keep(r) {
			out = append(out, r)
		}
	}
	return out
}

// ---- group queries ----

type agg08 struct {
	sql, label string
	f          func(rows [][]Val) Cell
}

func exact(v Val) Cell { return Cell{Mode: "exact", V: v} }

func (g *Gen08) oneAgg() agg08 {
	numCol := func() string { return g.pick("v", "v", "d") }
	anyCol := func() string { return g.pick("v", "d", "s") }
	switch x := g.rnd.Intn(100); {
	case x < 6:
		return agg08{"COUNT(*)", "COUNT(*)", func(rows [][]Val) Cell { return exact(IntVal(int64(len(rows)))) }}
	case x < 14:
		c := anyCol()
		return agg08{"COUNT(" + c + ")", "COUNT", func(rows [][]Val) Cell { return exact(AggValue("COUNT", nonNull(rows, wColIdx(c)))) }}
	case x < 22:
		c := anyCol()
		return agg08{"COUNT(DISTINCT " + c + ")", "COUNT DISTINCT", func(rows [][]Val) Cell {
			return exact(AggValue("COUNT", distinctVals(nonNull(rows, wColIdx(c)))))
		}}
	case x < 32:
		c := numCol()
		return agg08{"SUM(" + c + ")", "SUM:" + c, func(rows [][]Val) Cell { return exact(AggValue("SUM", nonNull(rows, wColIdx(c)))) }}
	case x < 37:
		c := numCol()
		return agg08{"SUM(DISTINCT " + c + ")", "SUM DISTINCT", func(rows [][]Val) Cell {
			return exact(AggValue("SUM", distinctVals(nonNull(rows, wColIdx(c)))))
		}}
	case x < 46:
		c := numCol()
		return agg08{"AVG(" + c + ")", "AVG:" + c, func(rows [][]Val) Cell {
			return Cell{Mode: "approx", V: AggValue("AVG", nonNull(rows, wColIdx(c)))}
		}}
	case x < 49:
		return agg08{"AVG(DISTINCT v)", "AVG DISTINCT", func(rows [][]Val) Cell {
			return Cell{Mode: "approx", V: AggValue("AVG", distinctVals(nonNull(rows, wV)))}
		}}
	case x < 60:
		c, fn := anyCol(), g.pick("MIN", "MAX")
		return agg08{fn + "(" + c + ")", fn + ":" + c, func(rows [][]Val) Cell { return exact(AggValue(fn, nonNull(rows, wColIdx(c)))) }}
	case x < 72:
		fn := g.pick("BIT_AND", "BIT_OR", "BIT_XOR")
		return agg08{fn + "(v)", fn, func(rows [][]Val) Cell { return exact(BitAgg(fn, nonNull(rows, wV))) }}
	case x < 90:
		return g.groupConcat()
	}
	c := g.pick("v", "s")
	return agg08{"JSON_ARRAYAGG(" + c + ")", "JSON_ARRAYAGG", func(rows [][]Val) Cell {
		if len(rows) == 0 {
			return Cell{Mode: "jsonset", Null: true}
		}
		var ps []string
		for _, r := range rows {
			ps = append(ps, r[wColIdx(c)].Key())
		}
		return Cell{Mode: "jsonset", Pieces: ps}
	}}
}

func (g *Gen08) groupConcat() agg08 {
	c := g.pick("s", "v")
	ci := wColIdx(c)
	distinct := g.pct(35)
	ordered := g.pct(60)
	sep, sepSQL := ",", ""
	if g.pct(40) {
		sep = g.pick("|", ";;", ", ", "")
		if sep == "" && !ordered {
			sep = "|"
		}
		sepSQL = " SEPARATOR '" + sep + "'"
	}
	var ord []WOrder
	ordSQL := ""
	if ordered {
		if distinct {
			ord = []WOrder{{c, g.pct(50)}}
		} else {
			ord = []WOrder{{g.pick("o", "v", "s", "k"), g.pct(40)}, {"id", g.pct(30)}}
		}
		var ks []string
		for _, k := range ord {
			s := k.Col
			if k.Desc {
				s += " DESC"
			}
			ks = append(ks, s)
		}
		ordSQL = " ORDER BY " + strings.Join(ks, ", ")
	}
	ds := ""
	if distinct {
		ds = "DISTINCT "
	}
	label := "GROUP_CONCAT"
	if distinct {
		label += " DISTINCT"
	}
	if ordered {
		label += " ORDER BY"
	}
	if sepSQL != "" {
		label += " SEPARATOR"
	}
	return agg08{"GROUP_CONCAT(" + ds + c + ordSQL + sepSQL + ")", label, func(rows [][]Val) Cell {
		in := append([][]Val{}, rows...)
		if ordered {
			w := Window{Order: ord}
			sort.SliceStable(in, func(a, b int) bool { return w.cmp(in[a], in[b]) < 0 })
		}
		vals := nonNull(in, ci)
		if distinct {
			vals = distinctVals(vals)
		}
		var ps []string
		for _, v := range vals {
			ps = append(ps, textOf(v))
		}
		if len(ps) == 0 {
			if ordered {
				return exact(Null)
			}
			return Cell{Mode: "pieces", Null: true, Sep: sep}
		}
		if ordered {
			return exact(StrVal(strings.Join(ps, sep)))
		}
		return Cell{Mode: "pieces", Pieces: ps, Sep: sep}
	}}
}

// Group generates one aggregate statement.
func (g *Gen08) Group() *Query08 {
	f := g.filter()
	in := g.input(f)
	key := g.pick("", "p", "p", "s", "o")
	n := 2 + g.rnd.Intn(4)
	var aggs []agg08
	for i := 0; i < n; i++ {
		aggs = append(aggs, g.oneAgg())
	}
	q := &Query08{Kind: "group", Expected: map[string][]Cell{}}
	var items []string
	if key != "" {
		q.KeyCols = 1
		items = append(items, key+" AS g0")
	}
	for i, a := range aggs {
		items = append(items, fmt.Sprintf("%s AS c%d", a.sql, i))
		q.Labels = append(q.Labels, a.label)
	}
	q.SQL = "SELECT " + strings.Join(items, ", ") + " FROM w" + f.sql
	if key != "" {
		q.SQL += " GROUP BY " + key
	}
	// groups
	type grp struct {
		key  string
		rows [][]Val
	}
	var groups []*grp
	if key == "" {
		groups = []*grp{{"", in}}
	} else {
		idx := map[string]*grp{}
		for _, r := range in {
			k := r[wColIdx(key)].Key()
			if idx[k] == nil {
				idx[k] = &grp{key: k}
				groups = append(groups, idx[k])
			}
			idx[k].rows = append(idx[k].rows, r)
		}
	}
	for _, gr := range groups {
		var cells []Cell
		for _, a := range aggs {
			cells = append(cells, a.f(gr.rows))
		}
		q.Expected[gr.key] = cells
		q.Keys = append(q.Keys, gr.key)
	}
	if key == "" && len(in) == 0 {
		q.Notes = append(q.Notes, "empty-input")
	}
	return q
}

// ---- window queries ----

var frameN = []int{0, 1, 1, 2, 2, 3, 20}

func (g *Gen08) bound(kinds ...string) Bound {
	k := kinds[g.rnd.Intn(len(kinds))]
	b := Bound{Kind: k}
	if k == "P" || k == "F" {
		b.N = frameN[g.rnd.Intn(len(frameN))]
	}
	return b
}

// frame draws one of the 13 bound combinations MySQL accepts (frames that start after they end are
// included: they are empty).
func (g *Gen08) frame(unit string) *Frame {
	f := &Frame{Unit: unit}
	f.Start = g.bound("UP", "P", "P", "C", "F")
	switch f.Start.Kind {
	case "UP", "P":
		f.End = g.bound("P", "C", "C", "F", "F", "UF")
	case "C":
		f.End = g.bound("C", "F", "F", "UF")
	default:
		f.End = g.bound("F", "F", "UF")
	}
	return f
}

type win08 struct {
	sql, label string
	f          func(rows [][]Val) map[string]Cell
}

func (g *Gen08) totalOrder() []WOrder {
	var o []WOrder
	if g.pct(80) {
		o = append(o, WOrder{g.pick("o", "k", "v", "s", "d"), g.pct(40)})
	}
	return append(o, WOrder{"id", g.pct(25)})
}

func (g *Gen08) oneWin() win08 {
	w := Window{}
	if g.pct(65) {
		w.Part = "p"
	}
	mk := func(call, label, fn, arg string, n int, def *Val) win08 {
		ww := w
		return win08{call + " " + ww.SQL(), label + "|" + ww.Shape(), func(rows [][]Val) map[string]Cell {
			return WinCompute(ww, fn, arg, n, def, rows)
		}}
	}
	switch x := g.rnd.Intn(100); {
	case x < 8:
		w.Order = g.totalOrder()
		return mk("ROW_NUMBER()", "ROW_NUMBER", "ROW_NUMBER", "", 0, nil)
	case x < 24:
		fn := g.pick("RANK", "DENSE_RANK", "PERCENT_RANK")
		w.Order = []WOrder{{g.pick("o", "k", "v", "s"), g.pct(40)}}
		if g.pct(25) {
			w.Order = append(w.Order, WOrder{g.pick("k", "v"), g.pct(40)})
		}
		return mk(fn+"()", fn, fn, "", 0, nil)
	case x < 32:
		w.Order = g.totalOrder()
		n := []int{1, 2, 3, 4, 20}[g.rnd.Intn(5)]
		return mk(fmt.Sprintf("NTILE(%d)", n), "NTILE", "NTILE", "", n, nil)
	case x < 50:
		fn := g.pick("LAG", "LEAD")
		arg := g.pick("v", "d", "s")
		w.Order = g.totalOrder()
		n := []int{-1, 0, 1, 1, 2, 20}[g.rnd.Intn(6)]
		call := fn + "(" + arg
		var def *Val
		if n >= 0 {
			call += fmt.Sprintf(", %d", n)
			if g.pct(50) {
				var d Val
				switch arg {
				case "v":
					d = IntVal(-9)
				case "d":
					d = DecVal("0.50")
				default:
					d = StrVal("zz")
				}
				def = &d
				call += ", " + litSQL(d)
			}
		}
		call += ")"
		return mk(call, fn, fn, arg, n, def)
	case x < 62:
		fn := g.pick("FIRST_VALUE", "LAST_VALUE")
		arg := g.pick("v", "d", "s")
		w.Order = g.totalOrder()
		if g.pct(65) {
			w.Frame = g.frame("ROWS")
		}
		return mk(fn+"("+arg+")", fn, fn, arg, 0, nil)
	}
	// framed aggregates
	fn := g.pick("SUM", "SUM", "COUNT", "COUNT*", "MIN", "MAX", "AVG")
	arg := g.pick("v", "v", "d")
	call := fn + "(" + arg + ")"
	if fn == "COUNT*" {
		call = "COUNT(*)"
	}
	switch y := g.rnd.Intn(100); {
	case y < 45:
		w.Order = g.totalOrder()
		w.Frame = g.frame("ROWS")
	case y < 75:
		w.Order = []WOrder{{g.rangeKey(), g.pct(40) && !g.cfg.NoRangeDesc}}
		w.Frame = g.frame("RANGE")
	case y < 90:
		w.Order = []WOrder{{g.rangeKey(), g.pct(40) && !g.cfg.NoRangeDesc}} // default frame: RANGE UNBOUNDED PRECEDING .. CURRENT ROW
	default:
		// no ORDER BY: the whole partition
	}
	return mk(call, fn+":"+arg, fn, arg, 0, nil)
}

// rangeKey is the ORDER BY key of RANGE / default frames: k (NOT NULL) under the F21 exclusion.
func (g *Gen08) rangeKey() string {
	if g.cfg.NoRangeNullKey {
		return "k"
	}
	return g.pick("k", "o")
}

// Win generates one window statement: SELECT id, f1, f2, .. FROM w [WHERE ..].
func (g *Gen08) Win() *Query08 {
	f := g.filter()
	in := g.input(f)
	n := 1 + g.rnd.Intn(3)
	q := &Query08{Kind: "window", KeyCols: 1, Expected: map[string][]Cell{}}
	items := []string{"id AS g0"}
	var per []map[string]Cell
	for i := 0; i < n; i++ {
		w := g.oneWin()
		items = append(items, fmt.Sprintf("%s AS c%d", w.sql, i))
		q.Labels = append(q.Labels, w.label)
		per = append(per, w.f(in))
	}
	q.SQL = "SELECT " + strings.Join(items, ", ") + " FROM w" + f.sql
	for _, r := range in {
		k := r[wID].Key()
		var cells []Cell
		for _, m := range per {
			cells = append(cells, m[k])
		}
		q.Expected[k] = cells
		q.Keys = append(q.Keys, k)
	}
	return q
}
