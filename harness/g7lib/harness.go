package g7lib

import (
	"fmt"
	"strings"

	"verif/harness/core"
)

// Env is one engine loaded with a generated schema, plus the reference copy of its tables built
// from what the engine returned for SELECT * (so storage conversion is not what is compared).
type Env struct {
	Eng    *core.Eng
	Sess   *core.Sess
	Schema *Schema
	Ref    *DB
}

// Close releases the engine.
func (e *Env) Close() { e.Eng.Close() }

// Load creates the engine, runs the setup statements and reads every table back.
func Load(sch *Schema) (*Env, error) {
	e := core.NewEng("d")
	s := e.NewSess()
	for _, q := range sch.Setup {
		if res := s.Exec(q); res.Failed() {
			e.Close()
			return nil, fmt.Errorf("setup failed: %s: %v %v", q, res.Err, res.ErrClass())
		}
	}
	ref := &DB{Tables: map[string]*Table{}, Order: sch.DB.Order}
	for _, name := range sch.DB.Order {
		src := sch.DB.Tables[name]
		res := s.Exec("SELECT * FROM " + name)
		if res.Failed() {
			e.Close()
			return nil, fmt.Errorf("read-back failed: %s: %v", name, res.Err)
		}
		rows, ok := EngineRows(res.Rows)
		if !ok || len(res.Schema) != len(src.Cols) {
			e.Close()
			return nil, fmt.Errorf("read-back of %s returned an unexpected shape", name)
		}
		ref.Tables[name] = &Table{Name: name, Cols: src.Cols, Rows: rows, PK: src.PK, Indexes: src.Indexes}
	}
	return &Env{Eng: e, Sess: s, Schema: sch, Ref: ref}, nil
}

// Unsupported reports whether an engine error belongs to the documented "unsupported / cannot parse"
// class, which makes a case inconclusive rather than a verdict.
func Unsupported(err error) bool {
	if err == nil {
		return false
	}
	m := strings.ToLower(err.Error())
	for _, s := range []string{"unsupported", "not supported", "syntax error", "not yet implemented", "not implemented"} {
		if strings.Contains(m, s) {
			return true
		}
	}
	return false
}

// PlanOps extracts the operator names of a physical plan text (evidence and matchers).
func PlanOps(plan string) []string {
	seen := map[string]bool{}
	var out []string
	for _, line := range strings.Split(plan, "\n") {
		l := strings.TrimLeft(line, " │├└─")
		if l == "" {
			continue
		}
		end := strings.IndexAny(l, "(: ")
		if end < 0 {
			end = len(l)
		}
		op := l[:end]
		if op == "" || !(op[0] >= 'A' && op[0] <= 'Z') {
			continue
		}
		if !seen[op] {
			seen[op] = true
			out = append(out, op)
		}
	}
	return out
}
