package g7lib

import (
	"bufio"
	"fmt"
	"io"
	"strings"

	"verif/harness/core"
)

// Probe runs the statements read from in (one per line, or separated by ";\n") on a fresh engine and
// prints schema, rows and plans. It is a construction / replay aid (`c02 probe < file.sql`), never
// part of a verdict.
func Probe(in io.Reader, out io.Writer, plan bool) {
	e := core.NewEng("d")
	defer e.Close()
	s := e.NewSess()
	sc := bufio.NewScanner(in)
	sc.Buffer(make([]byte, 1<<20), 1<<20)
	var cur strings.Builder
	run := func(q string) {
		q = strings.TrimSpace(q)
		if q == "" || strings.HasPrefix(q, "--") {
			return
		}
		res := s.Exec(q)
		fmt.Fprintf(out, "> %s\n", q)
		if res.Panic != nil {
			fmt.Fprintf(out, "  PANIC %s @ %s\n", res.Panic.Value, res.Panic.Site)
			return
		}
		if res.TimedOut {
			fmt.Fprintf(out, "  TIMEOUT\n")
			return
		}
		if res.Err != nil {
			fmt.Fprintf(out, "  ERR[%s] %v\n", res.ErrClass(), res.Err)
			return
		}
		if _, ok := res.Ok(); ok {
			return
		}
		var cols []string
		for _, c := range res.Schema {
			n := "NOT NULL"
			if c.Nullable {
				n = "NULL"
			}
			cols = append(cols, fmt.Sprintf("%s %s %s", c.Name, c.Type.String(), n))
		}
		fmt.Fprintf(out, "  schema: %s\n", strings.Join(cols, " | "))
		for _, row := range res.Rows {
			var gt []string
			for _, v := range row {
				gt = append(gt, fmt.Sprintf("%T", v))
			}
			fmt.Fprintf(out, "  %s    (%s)\n", core.CanonRow(row), strings.Join(gt, ","))
		}
		if plan && (strings.HasPrefix(strings.ToLower(q), "select") || strings.HasPrefix(q, "(")) {
			fmt.Fprintf(out, "  plan:\n%s\n", indent(s.Plan(q)))
		}
	}
	for sc.Scan() {
		line := sc.Text()
		cur.WriteString(line)
		cur.WriteString("\n")
		if strings.HasSuffix(strings.TrimSpace(line), ";") {
			q := strings.TrimSpace(cur.String())
			q = strings.TrimSuffix(q, ";")
			run(q)
			cur.Reset()
		}
	}
	run(cur.String())
}

func indent(s string) string {
	return "    " + strings.ReplaceAll(strings.TrimRight(s, "\n"), "\n", "\n    ")
}
