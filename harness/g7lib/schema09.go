package g7lib

import (
	"fmt"
	"math/rand"
	"strings"

	"github.com/dolthub/go-mysql-server/sql"
)

// ---- C09: result values conform to the result schema ----

// SchemaBad is one value that is not a member of its reported column type.
type SchemaBad struct {
	Col   int
	Row   int
	Kind  string // null-in-not-null | sql-fails | convert-fails | out-of-range | not-a-member
	Type  string
	Value string
	Note  string
}

// CheckSchema checks every value of a result against the reported schema: NULL only where the column
// is nullable; T.SQL(v) succeeds; T.Convert(v) succeeds in range; and T.SQL(T.Convert(v)) prints the
// same text as T.SQL(v) (the value is a member of T: not longer than varchar(n), not more digits than
// decimal(p,s), inside the integer width, an enum member). Go representation details are not checked.
// At most one finding per (column, kind) is returned.
func CheckSchema(ctx *sql.Context, sch sql.Schema, rows []sql.Row) []SchemaBad {
	var out []SchemaBad
	seen := map[string]bool{}
	add := func(b SchemaBad) {
		k := fmt.Sprintf("%d/%s", b.Col, b.Kind)
		if !seen[k] {
			seen[k] = true
			out = append(out, b)
		}
	}
	for ri, row := range rows {
		if len(row) != len(sch) {
			add(SchemaBad{Col: -1, Row: ri, Kind: "row-width", Note: fmt.Sprintf("row has %d values, schema %d columns", len(row), len(sch))})
			continue
		}
		for ci, v := range row {
			col := sch[ci]
			t := col.Type
			if v == nil {
				if !col.Nullable {
					add(SchemaBad{Col: ci, Row: ri, Kind: "null-in-not-null", Type: t.String(), Value: "NULL"})
				}
				continue
			}
			func() {
				defer func() {
					if rec := recover(); rec != nil {
						add(SchemaBad{Col: ci, Row: ri, Kind: "type-api-panics", Type: t.String(), Value: fmt.Sprintf("%T:%v", v, v), Note: fmt.Sprint(rec)})
					}
				}()
				s1, err := t.SQL(ctx, nil, v)
				if err != nil {
					add(SchemaBad{Col: ci, Row: ri, Kind: "sql-fails", Type: t.String(), Value: fmt.Sprintf("%T:%v", v, v), Note: err.Error()})
					return
				}
				c, inRange, err := t.Convert(ctx, v)
				if err != nil {
					add(SchemaBad{Col: ci, Row: ri, Kind: "convert-fails", Type: t.String(), Value: fmt.Sprintf("%T:%v", v, v), Note: err.Error()})
					return
				}
				if inRange != sql.InRange {
					add(SchemaBad{Col: ci, Row: ri, Kind: "out-of-range", Type: t.String(), Value: fmt.Sprintf("%T:%v", v, v)})
					return
				}
				s2, err := t.SQL(ctx, nil, c)
				if err != nil {
					add(SchemaBad{Col: ci, Row: ri, Kind: "sql-fails", Type: t.String(), Value: fmt.Sprintf("%T:%v", v, v), Note: "after Convert: " + err.Error()})
					return
				}
				if s1.ToString() != s2.ToString() {
					add(SchemaBad{Col: ci, Row: ri, Kind: "not-a-member", Type: t.String(), Value: fmt.Sprintf("%T:%v", v, v), Note: fmt.Sprintf("SQL(v)=%q SQL(Convert(v))=%q", s1.ToString(), s2.ToString())})
				}
			}()
		}
	}
	return out
}

// ---- typed statements of C09's own stream ----

// Stmt09 is one statement with a label per output column (the expression kind, for signatures).
type Stmt09 struct {
	SQL    string
	Labels []string
	Class  string
}

// Setup09 creates two tables m and n over a wider type palette.
func Setup09(rnd *rand.Rand) []string {
	def := "(id INT NOT NULL, ti TINYINT, su SMALLINT UNSIGNED, bi BIGINT NOT NULL, iu INT UNSIGNED, dc DECIMAL(5,2), d0 DECIMAL(10,0) NOT NULL, vc VARCHAR(3), ch CHAR(2) NOT NULL, en ENUM('x','y','z'), dt DATE, fl DOUBLE, PRIMARY KEY (id))"
	out := []string{"CREATE TABLE m " + def, "CREATE TABLE n " + def}
	tis := []string{"-128", "127", "0", "1", "NULL", "5"}
	sus := []string{"0", "65535", "7", "NULL", "300"}
	bis := []string{"-9223372036854775808", "9223372036854775807", "0", "1", "-1", "1000000"}
	ius := []string{"0", "4294967295", "3", "NULL", "70000"}
	dcs := []string{"-999.99", "999.99", "0.00", "1.50", "NULL", "0.05"}
	d0s := []string{"-9999999999", "9999999999", "0", "12", "3"}
	vcs := []string{"''", "'a'", "'abc'", "NULL", "'Z'", "'é'"}
	chs := []string{"''", "'a'", "'ab'", "'z'"}
	ens := []string{"'x'", "'y'", "'z'", "NULL"}
	dts := []string{"'2020-01-01'", "'1999-12-31'", "'9999-12-31'", "NULL", "'1000-01-01'"}
	fls := []string{"0", "1.5", "-2.25", "NULL", "1e10", "3"}
	pick := func(xs []string) string { return xs[rnd.Intn(len(xs))] }
	for _, t := range []string{"m", "n"} {
		n := rnd.Intn(6)
		if rnd.Intn(8) == 0 {
			n = 0
		}
		for i := 0; i < n; i++ {
			out = append(out, fmt.Sprintf("INSERT INTO %s VALUES (%d, %s, %s, %s, %s, %s, %s, %s, %s, %s, %s, %s)", t, i+1,
				pick(tis), pick(sus), pick(bis), pick(ius), pick(dcs), pick(d0s), pick(vcs), pick(chs), pick(ens), pick(dts), pick(fls)))
		}
	}
	return out
}

var cols09 = []string{"id", "ti", "su", "bi", "iu", "dc", "d0", "vc", "ch", "en", "dt", "fl"}
var notNull09 = map[string]bool{"id": true, "bi": true, "d0": true, "ch": true}
var lits09 = []string{"1", "-1", "300", "1.5", "'a'", "'abcd'", "NULL", "0.001", "18446744073709551615", "'2021-02-03'"}

// Gen09 draws one statement of C09's own stream.
func Gen09(rnd *rand.Rand) Stmt09 {
	col := func(t string) string { return t + "." + cols09[rnd.Intn(len(cols09))] }
	operand := func(t string) (string, string) {
		if rnd.Intn(5) == 0 {
			l := lits09[rnd.Intn(len(lits09))]
			return l, "lit"
		}
		c := col(t)
		return c, "col:" + c[2:]
	}
	where := func() string {
		switch rnd.Intn(5) {
		case 0:
			return " WHERE 1 = 0"
		case 1:
			return " WHERE m.id > 2"
		}
		return ""
	}
	switch x := rnd.Intn(100); {
	case x < 25: // UNION of differently typed branches
		n := 1 + rnd.Intn(3)
		var l, r, labels []string
		for i := 0; i < n; i++ {
			a, la := operand("m")
			b, lb := operand("n")
			l = append(l, fmt.Sprintf("%s AS c%d", a, i))
			r = append(r, b)
			labels = append(labels, "union("+la+","+lb+")")
		}
		op := []string{"UNION", "UNION ALL", "INTERSECT", "EXCEPT"}[rnd.Intn(4)]
		return Stmt09{fmt.Sprintf("(SELECT %s FROM m) %s (SELECT %s FROM n)", strings.Join(l, ", "), op, strings.Join(r, ", ")), labels, "union"}
	case x < 45: // outer joins: NOT NULL columns of the nullable side, expressions over them
		jt := []string{"LEFT", "RIGHT"}[rnd.Intn(2)]
		on := []string{"m.id = n.id", "m.id = n.id + 1", "m.id = n.id AND n.ti > 100", "1 = 0", "m.ti = n.ti"}[rnd.Intn(5)]
		var items, labels []string
		n := 2 + rnd.Intn(4)
		for i := 0; i < n; i++ {
			t := []string{"m", "n"}[rnd.Intn(2)]
			c := col(t)
			switch rnd.Intn(6) {
			case 0:
				items = append(items, fmt.Sprintf("(%s + 1) AS c%d", c, i))
				labels = append(labels, "outer:arith:"+c[2:])
			case 1:
				items = append(items, fmt.Sprintf("CONCAT(%s, 'x') AS c%d", c, i))
				labels = append(labels, "outer:concat:"+c[2:])
			case 2:
				items = append(items, fmt.Sprintf("COALESCE(%s, %s) AS c%d", c, col(t), i))
				labels = append(labels, "outer:coalesce")
			default:
				items = append(items, fmt.Sprintf("%s AS c%d", c, i))
				labels = append(labels, "outer:col:"+c[2:])
			}
		}
		return Stmt09{fmt.Sprintf("SELECT %s FROM m %s JOIN n ON %s", strings.Join(items, ", "), jt, on), labels, "outer-join"}
	case x < 65: // aggregates over empty input / all-NULL groups
		fns := []string{"SUM", "MIN", "MAX", "AVG", "COUNT", "GROUP_CONCAT", "BIT_OR", "BIT_AND", "JSON_ARRAYAGG", "STD", "VARIANCE", "ANY_VALUE", "FIRST", "LAST"}
		n := 1 + rnd.Intn(4)
		var items, labels []string
		for i := 0; i < n; i++ {
			fn := fns[rnd.Intn(len(fns))]
			c := col("m")
			items = append(items, fmt.Sprintf("%s(%s) AS c%d", fn, c, i))
			labels = append(labels, "agg:"+fn)
		}
		grp := ""
		if rnd.Intn(3) == 0 {
			grp = " GROUP BY m.en"
		}
		return Stmt09{fmt.Sprintf("SELECT %s FROM m%s%s", strings.Join(items, ", "), where(), grp), labels, "aggregate"}
	case x < 85: // CASE / IF / IFNULL / COALESCE / NULLIF with mixed branch types
		n := 1 + rnd.Intn(3)
		var items, labels []string
		for i := 0; i < n; i++ {
			a, _ := operand("m")
			b, _ := operand("m")
			c, _ := operand("m")
			switch rnd.Intn(6) {
			case 0:
				// conditions over NOT NULL columns (never NULL themselves) and the simple form as well as the searched one
				switch rnd.Intn(5) {
				case 0:
					items = append(items, fmt.Sprintf("CASE WHEN m.id %% 2 = 0 THEN %s ELSE %s END AS c%d", a, b, i))
				case 1:
					items = append(items, fmt.Sprintf("CASE WHEN m.id > 1 THEN %s ELSE %s END AS c%d", a, b, i))
				case 2:
					items = append(items, fmt.Sprintf("CASE WHEN m.bi < 5 THEN %s WHEN m.id <= 3 THEN %s ELSE %s END AS c%d", a, c, b, i))
				case 3:
					items = append(items, fmt.Sprintf("CASE m.id WHEN 1 THEN %s WHEN 2 THEN %s ELSE %s END AS c%d", a, c, b, i))
				default:
					items = append(items, fmt.Sprintf("CASE m.ch WHEN 'a' THEN %s ELSE %s END AS c%d", a, b, i))
				}
				// branches are plain columns or literals of one base table: its own kind, so that the known nullability
				// finding for CASE over arithmetic / outer-join operands (R4) does not absorb a failure here
				labels = append(labels, "case-plain")
			case 1:
				items = append(items, fmt.Sprintf("CASE WHEN m.id = 1 THEN %s WHEN m.id = 2 THEN %s END AS c%d", a, b, i))
				labels = append(labels, "case-no-else")
			case 2:
				items = append(items, fmt.Sprintf("IF(m.id > 1, %s, %s) AS c%d", a, b, i))
				labels = append(labels, "if")
			case 3:
				items = append(items, fmt.Sprintf("IFNULL(%s, %s) AS c%d", a, b, i))
				labels = append(labels, "ifnull")
			case 4:
				items = append(items, fmt.Sprintf("COALESCE(%s, %s, %s) AS c%d", a, b, c, i))
				labels = append(labels, "coalesce")
			default:
				items = append(items, fmt.Sprintf("NULLIF(%s, %s) AS c%d", a, b, i))
				labels = append(labels, "nullif")
			}
		}
		return Stmt09{fmt.Sprintf("SELECT %s FROM m%s", strings.Join(items, ", "), where()), labels, "conditional"}
	}
	// arithmetic, functions and casts across the palette
	n := 1 + rnd.Intn(3)
	var items, labels []string
	for i := 0; i < n; i++ {
		a, _ := operand("m")
		b, _ := operand("m")
		switch rnd.Intn(9) {
		case 0:
			op := []string{"+", "-", "*", "/", "DIV", "%"}[rnd.Intn(6)]
			items = append(items, fmt.Sprintf("(%s %s %s) AS c%d", a, op, b, i))
			labels = append(labels, "arith:"+op)
		case 1:
			items = append(items, fmt.Sprintf("(-%s) AS c%d", a, i))
			labels = append(labels, "neg")
		case 2:
			items = append(items, fmt.Sprintf("CONCAT(%s, %s) AS c%d", a, b, i))
			labels = append(labels, "concat")
		case 3:
			items = append(items, fmt.Sprintf("SUBSTRING(%s, 2, 2) AS c%d", a, i))
			labels = append(labels, "substring")
		case 4:
			ct := []string{"SIGNED", "UNSIGNED", "DECIMAL(4,1)", "CHAR(2)", "DATE", "DOUBLE"}[rnd.Intn(6)]
			items = append(items, fmt.Sprintf("CAST(%s AS %s) AS c%d", a, ct, i))
			labels = append(labels, "cast:"+ct)
		case 5:
			items = append(items, fmt.Sprintf("(%s = %s) AS c%d", a, b, i))
			labels = append(labels, "cmp")
		case 6:
			fn := []string{"ABS", "ROUND", "FLOOR", "CEIL", "LENGTH", "UPPER", "YEAR"}[rnd.Intn(7)]
			items = append(items, fmt.Sprintf("%s(%s) AS c%d", fn, a, i))
			labels = append(labels, "fn:"+fn)
		case 7:
			items = append(items, fmt.Sprintf("GREATEST(%s, %s) AS c%d", a, b, i))
			labels = append(labels, "greatest")
		default:
			items = append(items, fmt.Sprintf("(SELECT MAX(%s) FROM n) AS c%d", strings.Replace(a, "m.", "n.", 1), i))
			labels = append(labels, "scalar-subquery")
		}
	}
	return Stmt09{fmt.Sprintf("SELECT %s FROM m%s", strings.Join(items, ", "), where()), labels, "expression"}
}
