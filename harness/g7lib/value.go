// Package g7lib holds what the reference-model query monitors C02, C08 and C09 share: the query AST,
// its SQL renderer, the seeded generators, and the deliberately naive reference evaluator (nested
// loops, math/big, Kleene three-valued logic, MySQL NULL rules; DESIGN Appendix A).
package g7lib

import (
	"context"
	"fmt"
	"math/big"
	"strings"

	"github.com/cockroachdb/apd/v3"
	"github.com/dolthub/go-mysql-server/sql"
	"github.com/dolthub/go-mysql-server/sql/types"
)

// Kind is the kind of a reference value.
type Kind uint8

const (
	KNull Kind = iota
	KInt       // exact integer (also the truth values 1/0)
	KDec       // exact rational with a finite decimal expansion, or an AVG quotient
	KStr       // byte string under a binary collation
)

// Val is one reference value. Numbers are exact rationals.
type Val struct {
	K Kind
	N *big.Rat
	S string
}

var (
	Null  = Val{K: KNull}
	True  = IntVal(1)
	False = IntVal(0)
)

func IntVal(i int64) Val   { return Val{K: KInt, N: new(big.Rat).SetInt64(i)} }
func StrVal(s string) Val  { return Val{K: KStr, S: s} }
func RatVal(r *big.Rat) Val {
	if r.IsInt() {
		return Val{K: KInt, N: r}
	}
	return Val{K: KDec, N: r}
}

// DecVal parses decimal text ("1.50") into an exact value of kind KDec.
func DecVal(s string) Val {
	r, ok := new(big.Rat).SetString(s)
	if !ok {
		panic("bad decimal " + s)
	}
	return Val{K: KDec, N: r}
}

func (v Val) IsNull() bool { return v.K == KNull }
func (v Val) IsNum() bool  { return v.K == KInt || v.K == KDec }

// ratText renders an exact rational: integers as digits, finite decimals exactly, anything else as
// a fraction (only AVG results can be such, and they are compared approximately, never by text).
func ratText(r *big.Rat) string {
	if r.IsInt() {
		return r.Num().String()
	}
	den := new(big.Int).Set(r.Denom())
	n := 0
	two, five, zero := big.NewInt(2), big.NewInt(5), big.NewInt(0)
	m := new(big.Int)
	c2, c5 := 0, 0
	for new(big.Int).Mod(den, two).Cmp(zero) == 0 {
		den.Quo(den, two)
		c2++
	}
	for m.Mod(den, five).Cmp(zero) == 0 {
		den.Quo(den, five)
		c5++
	}
	if den.Cmp(big.NewInt(1)) != 0 {
		return "q" + r.String()
	}
	n = c2
	if c5 > n {
		n = c5
	}
	s := r.FloatString(n)
	if strings.Contains(s, ".") {
		s = strings.TrimRight(s, "0")
		s = strings.TrimSuffix(s, ".")
	}
	if s == "-0" {
		s = "0"
	}
	return s
}

// Key is the canonical text of a value: equal values (numbers by value, strings bytewise, NULL =
// NULL) have equal keys. It coincides with core.Canon on the engine side for exact values.
func (v Val) Key() string {
	switch v.K {
	case KNull:
		return "NULL"
	case KStr:
		return "'" + v.S + "'"
	}
	return ratText(v.N)
}

func (v Val) String() string { return v.Key() }

// MarshalJSON makes witnesses readable.
func (v Val) MarshalJSON() ([]byte, error) { return []byte(fmt.Sprintf("%q", v.Key())), nil }

// RowKey is the canonical text of a row.
func RowKey(row []Val) string {
	parts := make([]string, len(row))
	for i, v := range row {
		parts[i] = v.Key()
	}
	return strings.Join(parts, "|")
}

// RowKeys renders rows.
func RowKeys(rows [][]Val) []string {
	out := make([]string, len(rows))
	for i, r := range rows {
		out[i] = RowKey(r)
	}
	return out
}

// Cmp3 compares two non-NULL values of the same family: numbers by exact value, strings bytewise.
// ok=false when the families differ (never generated; the caller treats it as a harness error).
func Cmp3(a, b Val) (int, bool) {
	if a.IsNum() && b.IsNum() {
		return a.N.Cmp(b.N), true
	}
	if a.K == KStr && b.K == KStr {
		return strings.Compare(a.S, b.S), true
	}
	return 0, false
}

// OrderCmp is the ORDER BY comparison: NULL sorts before every value (ascending).
func OrderCmp(a, b Val) int {
	if a.IsNull() || b.IsNull() {
		switch {
		case a.IsNull() && b.IsNull():
			return 0
		case a.IsNull():
			return -1
		}
		return 1
	}
	c, ok := Cmp3(a, b)
	if !ok {
		// numbers before strings: never reached by generated queries
		if a.IsNum() {
			return -1
		}
		return 1
	}
	return c
}

// FromEngine converts a value returned by the engine into a reference value (ok=false for a Go type
// the fragment never produces).
func FromEngine(v any) (Val, bool) {
	if v == nil {
		return Null, true
	}
	if w, ok := v.(sql.AnyWrapper); ok {
		u, err := w.UnwrapAny(context.Background())
		if err != nil {
			return Null, false
		}
		v = u
	}
	switch x := v.(type) {
	case bool:
		if x {
			return IntVal(1), true
		}
		return IntVal(0), true
	case int:
		return IntVal(int64(x)), true
	case int8:
		return IntVal(int64(x)), true
	case int16:
		return IntVal(int64(x)), true
	case int32:
		return IntVal(int64(x)), true
	case int64:
		return IntVal(x), true
	case uint8:
		return IntVal(int64(x)), true
	case uint16:
		return IntVal(int64(x)), true
	case uint32:
		return IntVal(int64(x)), true
	case uint64:
		return RatVal(new(big.Rat).SetInt(new(big.Int).SetUint64(x))), true
	case uint:
		return RatVal(new(big.Rat).SetInt(new(big.Int).SetUint64(uint64(x)))), true
	case float32:
		r := new(big.Rat)
		if r.SetFloat64(float64(x)) == nil {
			return Null, false
		}
		return RatVal(r), true
	case float64:
		r := new(big.Rat)
		if r.SetFloat64(x) == nil {
			return Null, false
		}
		return RatVal(r), true
	case apd.Decimal:
		return decFromText(x.Text('f'))
	case *apd.Decimal:
		if x == nil {
			return Null, true
		}
		return decFromText(x.Text('f'))
	case string:
		return StrVal(x), true
	case []byte:
		return StrVal(string(x)), true
	case sql.JSONWrapper:
		s, err := types.JsonToMySqlString(context.Background(), x)
		if err != nil {
			return Null, false
		}
		return StrVal(s), true
	}
	return Null, false
}

func decFromText(s string) (Val, bool) {
	r, ok := new(big.Rat).SetString(s)
	if !ok {
		return Null, false
	}
	return RatVal(r), true
}

// EngineRows converts all rows of an engine result.
func EngineRows(rows []sql.Row) ([][]Val, bool) {
	out := make([][]Val, len(rows))
	for i, r := range rows {
		o := make([]Val, len(r))
		for j, v := range r {
			x, ok := FromEngine(v)
			if !ok {
				return nil, false
			}
			o[j] = x
		}
		out[i] = o
	}
	return out, true
}

// approxUnit returns the tolerance for comparing an engine AVG cell with the exact quotient: one unit
// of the engine's last printed digit for decimals, 1e-9 relative for doubles.
func approxUnit(raw any, exact *big.Rat) *big.Rat {
	switch x := raw.(type) {
	case *apd.Decimal:
		if x != nil && x.Exponent < 0 {
			return new(big.Rat).SetFrac(big.NewInt(1), new(big.Int).Exp(big.NewInt(10), big.NewInt(int64(-x.Exponent)), nil))
		}
		return big.NewRat(1, 1)
	case apd.Decimal:
		if x.Exponent < 0 {
			return new(big.Rat).SetFrac(big.NewInt(1), new(big.Int).Exp(big.NewInt(10), big.NewInt(int64(-x.Exponent)), nil))
		}
		return big.NewRat(1, 1)
	}
	t := new(big.Rat).Abs(exact)
	t.Mul(t, big.NewRat(1, 1000000000))
	if t.Sign() == 0 {
		t = big.NewRat(1, 1000000000000)
	}
	return t
}

// CellMatch compares one engine cell with the reference value; approx selects the AVG rule.
func CellMatch(raw any, ev Val, ref Val, approx bool) bool {
	if ev.IsNull() || ref.IsNull() {
		return ev.IsNull() && ref.IsNull()
	}
	if ev.IsNum() != ref.IsNum() {
		return false
	}
	if !ev.IsNum() {
		return ev.S == ref.S
	}
	if !approx {
		return ev.N.Cmp(ref.N) == 0
	}
	d := new(big.Rat).Sub(ev.N, ref.N)
	d.Abs(d)
	return d.Cmp(approxUnit(raw, ref.N)) <= 0
}
