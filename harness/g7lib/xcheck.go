package g7lib

import (
	"encoding/json"
	"fmt"
	"io"

	"verif/harness/core"
)

// XCheck emits n generated cases (SQLite-dialect setup and query text plus the reference evaluator's
// answer) as JSON lines, for the construction-time cross-check of the reference evaluator against
// SQLite (xcheck_sqlite.py). No registered check depends on it.
func XCheck(out io.Writer, n int, seed int64, deep bool) {
	enc := json.NewEncoder(out)
	for i := 0; i < n; i++ {
		rnd := core.RandFor(seed, "XCHECK", "q", i)
		cfg := Cfg{Tables: 3, MaxRows: 6, ForSQLite: true}
		sch := GenSchema(rnd, cfg)
		qc := QCfg{MaxFrom: 2, SubDepth: 1, SubFrom: 1, ForSQLite: true}
		if deep {
			qc = QCfg{MaxFrom: 3, SubDepth: 2, SubFrom: 2, ForSQLite: true}
		}
		g := NewGen(rnd, sch.DB, qc)
		for k := 0; k < 8; k++ {
			q := g.Query()
			ev := &Evaluator{DB: sch.DB}
			rows, err := ev.Query(q)
			rec := map[string]any{"case": fmt.Sprintf("%d/%d", i, k), "setup": sch.Lite, "q": q.SQL(SQLite), "mysql": q.SQL(MySQL)}
			if err != nil {
				rec["referr"] = err.Error()
			} else {
				var rr [][]string
				for _, r := range rows {
					var o []string
					for _, v := range r {
						o = append(o, v.Key())
					}
					rr = append(rr, o)
				}
				rec["rows"] = rr
			}
			var keys []int
			for _, ok := range q.OrderBy {
				keys = append(keys, ok.Item)
			}
			rec["orderkeys"] = keys
			rec["limit"] = q.Limit >= 0
			rec["approx"] = q.ApproxCols()
			enc.Encode(rec)
		}
	}
}

// XCheck08 emits generated C08 statements with the reference answers as JSON lines for the
// construction-time cross-check against SQLite's window functions (xcheck08_sqlite.py).
func XCheck08(out io.Writer, n int, seed int64) {
	enc := json.NewEncoder(out)
	for i := 0; i < n; i++ {
		rnd := core.RandFor(seed, "XCHECK08", "q", i)
		sch := GenTable08(rnd)
		lite := []string{"CREATE TABLE w (id INT, p INT, o INT, k INT, v INT, d NUMERIC, s TEXT)"}
		lite = append(lite, sch.Setup[1:]...)
		g := NewGen08(rnd, sch.DB.Tables["w"].Rows, Cfg08{NoRangeNullKey: true})
		for k := 0; k < 6; k++ {
			var q *Query08
			if k%3 == 0 {
				q = g.Group()
			} else {
				q = g.Win()
			}
			exp := map[string][]map[string]any{}
			for key, cells := range q.Expected {
				for _, c := range cells {
					exp[key] = append(exp[key], map[string]any{"mode": c.Mode, "v": c.V.Key(), "pieces": c.Pieces, "null": c.Null, "sep": c.Sep})
				}
			}
			enc.Encode(map[string]any{"case": fmt.Sprintf("%d/%d", i, k), "setup": lite, "q": q.SQL, "keycols": q.KeyCols, "labels": q.Labels, "expected": exp})
		}
	}
}
