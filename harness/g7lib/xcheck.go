package g7lib

import (
	"encoding/json"
	"fmt"
	"io"

	"verif/harness/core"
)

// XCheck emits n generated cases (SQLite-dialect setup and query text plus the reference evaluator's
// answer) as JSON lines, for the construction-time cross-check of the reference evaluator against
// SQLite (xcheck_sqlite.py). No registered check depends on it.
func XCheck(out io.Writer, n int, seed int64, deep bool) {
	enc := json.NewEncoder(out)
	for i := 0; i < n; i++ {
		rnd := core.RandFor(seed, "XCHECK", "q", i)
		cfg := Cfg{Tables: 3, MaxRows: 6, ForSQLite: true}
		sch := GenSchema(rnd, cfg)
		qc := QCfg{MaxFrom: 2, SubDepth: 1, SubFrom: 1, ForSQLite: true}
		if deep {
			qc = QCfg{MaxFrom: 3, SubDepth: 2, SubFrom: 2, ForSQLite: true}
		}
		g := NewGen(rnd, sch.DB, qc)
		for k := 0; k < 8; k++ {
			q := g.Query()
			ev := &Evaluator{DB: sch.DB}
			rows, err := ev.Query(q)
			rec := map[string]any{"case": fmt.Sprintf("%d/%d", i, k), "setup": sch.Lite, "q": q.SQL(SQLite), "mysql": q.SQL(MySQL)}
			if err != nil {
				rec["referr"] = err.Error()
			} else {
				var rr [][]string
				for _, r := range rows {
					var o []string
					for _, v := range r {
						o = append(o, v.Key())
					}
					rr = append(rr, o)
				}
				rec["rows"] = rr
			}
			var keys []int
			for _, ok := range q.OrderBy {
				keys = append(keys, ok.Item)
			}
			rec["orderkeys"] = keys
			rec["limit"] = q.Limit >= 0
			rec["approx"] = q.ApproxCols()
			enc.Encode(rec)
		}
	}
}
