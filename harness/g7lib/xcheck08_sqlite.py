#!/usr/bin/env python3
"""Construction-time cross-check of the C08 reference (aggregates, window functions, frames) against
SQLite 3.40.  usage: c08 xcheck <n> <seed> | python3 xcheck08_sqlite.py
Statements SQLite cannot parse (BIT_*, JSON_ARRAYAGG, GROUP_CONCAT .. ORDER BY / SEPARATOR) are skipped."""
import sys, json, sqlite3
from fractions import Fraction

def key(v):
    if v is None: return "NULL"
    if isinstance(v, str): return "'" + v + "'"
    return v

def num(s):
    if s.startswith("q"): return Fraction(s[1:])
    return Fraction(s)

n = bad = skipped = cells = 0
for line in sys.stdin:
    rec = json.loads(line); n += 1
    db = sqlite3.connect(":memory:")
    for s in rec["setup"]: db.execute(s)
    try:
        rows = db.execute(rec["q"]).fetchall()
    except Exception as e:
        skipped += 1; continue
    kc = rec["keycols"]; exp = rec["expected"]; seen = set(); ok = True; why = []
    for r in rows:
        k = "|".join(str(key(v)) if not isinstance(v, float) else str(Fraction(v)) for v in r[:kc])
        if k not in exp: ok = False; why.append("unexpected row " + k); continue
        seen.add(k)
        for j, c in enumerate(exp[k]):
            got = r[kc + j]; cells += 1
            if c["mode"] in ("pieces",):
                if c["null"] or got is None:
                    good = bool(c["null"]) and got is None
                else:
                    good = sorted(str(got).split(c["sep"])) == sorted(c["pieces"] or [])
            elif c["mode"].startswith("json"):
                continue
            else:
                e = c["v"]
                if e == "NULL" or got is None: good = (e == "NULL" and got is None)
                elif e.startswith("'"): good = isinstance(got, str) and got == e[1:-1]
                else:
                    if isinstance(got, str): good = False
                    else:
                        ev = num(e); gv = Fraction(got)
                        good = abs(ev - gv) <= abs(ev) * Fraction(1, 10**9) + Fraction(1, 10**12)
            if not good:
                ok = False; why.append(f"{k}/{rec['labels'][j]}: sqlite {got!r} ref {c}")
    for k in exp:
        if k not in seen: ok = False; why.append("missing row " + k)
    if not ok:
        bad += 1
        print("DISAGREE", rec["case"], rec["q"]); print("  setup:", "; ".join(rec["setup"])); 
        for w in why[:6]: print("  ", w)
print(f"statements={n} compared-cells={cells} disagree={bad} skipped(sqlite cannot parse)={skipped}")
