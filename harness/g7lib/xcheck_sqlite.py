#!/usr/bin/env python3
"""Construction-time cross-check of the g7lib reference evaluator against SQLite (python stdlib).
usage: c02 xcheck <n> <seed> [deep] | python3 xcheck_sqlite.py
Any disagreement is a bug in the reference evaluator until proven otherwise. Not used by any check."""
import sys, json, sqlite3
from fractions import Fraction

def conv_ref(s):
    if s == "NULL": return None
    if s.startswith("'"): return s[1:-1]
    if s.startswith("q"): return Fraction(s[1:])
    return Fraction(s)

def conv_lite(v):
    if v is None: return None
    if isinstance(v, (int, float)): return Fraction(v)
    return v

def cell_eq(a, b, approx):
    if a is None or b is None: return a is None and b is None
    if isinstance(a, str) != isinstance(b, str): return False
    if isinstance(a, str): return a == b
    if approx: return abs(a - b) <= abs(b) * Fraction(1, 10**9) + Fraction(1, 10**12)
    return a == b

def row_eq(a, b, approx):
    return len(a) == len(b) and all(cell_eq(x, y, ap) for x, y, ap in zip(a, b, approx))

n = bad = referr = liteerr = 0
for line in sys.stdin:
    rec = json.loads(line)
    n += 1
    if "referr" in rec:
        referr += 1
        print("REFERR", rec["case"], rec["referr"], rec["q"]); continue
    db = sqlite3.connect(":memory:")
    for s in rec["setup"]: db.execute(s)
    try:
        got = [tuple(conv_lite(v) for v in r) for r in db.execute(rec["q"]).fetchall()]
    except Exception as e:
        liteerr += 1
        print("SQLITE-ERR", rec["case"], e, rec["q"]); continue
    ref = [tuple(conv_ref(v) for v in r) for r in (rec["rows"] or [])]
    approx = rec["approx"]
    ok = True
    if rec["limit"]:
        ok = len(got) == len(ref) and all(row_eq(a, b, approx) for a, b in zip(got, ref))
    else:
        used = [False] * len(ref)
        if len(got) != len(ref): ok = False
        for g in got:
            for j, r in enumerate(ref):
                if not used[j] and row_eq(g, r, approx):
                    used[j] = True; break
            else:
                ok = False
        if ok and rec["orderkeys"]:
            ks = rec["orderkeys"]
            ok = [tuple(r[k] for k in ks) for r in got] == [tuple(r[k] for k in ks) for r in ref]
    if not ok:
        bad += 1
        print("DISAGREE", rec["case"]); print("  sqlite:", rec["q"]); print("  mysql: ", rec["mysql"])
        print("  setup:", "; ".join(rec["setup"]))
        print("  sqlite rows:", got); print("  ref rows:   ", ref)
print(f"cases={n} disagree={bad} referr={referr} sqlite-errors={liteerr}")
