package g8alib

// Emulation of the engine's per-statement edit accumulator for keyed tables
// (memory/table_editor.go pkTableEditAccumulator), used ONLY to recognise known defects: a mismatch
// between the engine and the reference is attributed to one of the accumulator's known defects when
// the engine did exactly what this emulation does and the statement belongs to the defect's input
// class. It never contributes to a verdict of "held".
//
// The accumulator keeps pending adds and pending deletes in two maps keyed by the primary key and
// applies them to the stored rows at the end of the statement. Its lookups have these properties:
//   - Get (primary key): pending add -> exists; pending delete -> free; else scan the stored rows.
//   - GetByCols (unique key): if ANY pending delete agrees on the key -> "no conflict" (defect: the
//     check is abandoned); else pending adds; else the stored rows, including rows that are already
//     pending deletion but whose map entry was overwritten by a later delete of the same primary key.
//   - the map key is the primary-key tuple printed with %v and no separator (defect F2), selected here
//     by EmulOpts.ConcatKeys.

import "sort"

// EmulOpts selects which of the engine's behaviours the emulation reproduces.
type EmulOpts struct {
	Cmp        KeyCmp // how key parts are compared when scanning rows (the engine compares raw values)
	ConcatKeys bool   // key the pending maps by the separator-less concatenation of the PK values
	// DeadRowsSkipped selects the repaired unique-key lookup (pending adds first, then the stored rows
	// except those pending deletion) instead of the defective one (abandon the check when any pending
	// delete agrees on the key). Monitors set it from ProbeKnown().UniqueCheckDeadRow.
	DeadRowsSkipped bool
}

type emul struct {
	t       *Table
	pk      *Key
	o       EmulOpts
	stored  []Row
	adds    map[string]Row
	deletes map[string]Row
	order   []string // insertion order of map keys, for a deterministic apply
}

func (e *emul) key(r Row) string {
	c, x := e.t.pkText(e.pk, r)
	if e.o.ConcatKeys {
		return c
	}
	return x
}

func (e *emul) note(k string) {
	for _, x := range e.order {
		if x == k {
			return
		}
	}
	e.order = append(e.order, k)
}

func (e *emul) get(r Row) (Row, bool) {
	k := e.key(r)
	if a, ok := e.adds[k]; ok {
		return a, true
	}
	if _, ok := e.deletes[k]; ok {
		return nil, false
	}
	for _, s := range e.stored {
		if e.t.KeyEq(e.pk, s, r, e.o.Cmp) {
			return s, true
		}
	}
	return nil, false
}

func (e *emul) getByCols(r Row, k *Key) (Row, bool) {
	if !e.o.DeadRowsSkipped {
		for _, key := range e.order {
			if d, ok := e.deletes[key]; ok && e.t.KeyEq(k, d, r, e.o.Cmp) {
				return nil, false
			}
		}
	}
	for _, key := range e.order {
		if a, ok := e.adds[key]; ok && e.t.KeyEq(k, a, r, e.o.Cmp) {
			return a, true
		}
	}
	for _, s := range e.stored {
		if e.t.KeyEq(k, s, r, e.o.Cmp) {
			if _, dead := e.deletes[e.key(s)]; dead && e.o.DeadRowsSkipped {
				continue
			}
			return s, true
		}
	}
	return nil, false
}

func (e *emul) uniqueConflict(r Row) (Row, bool) {
	for i := range e.t.Keys {
		k := &e.t.Keys[i]
		if !k.Unique || k.Primary {
			continue
		}
		if x, ok := e.getByCols(r, k); ok {
			return x, true
		}
	}
	return nil, false
}

// insert returns the conflicting row when the insert is refused.
func (e *emul) insert(r Row) (Row, bool) {
	if x, ok := e.get(r); ok {
		return x, true
	}
	if x, ok := e.uniqueConflict(r); ok {
		return x, true
	}
	k := e.key(r)
	e.adds[k] = r
	e.note(k)
	return nil, false
}

func (e *emul) del(r Row) {
	k := e.key(r)
	delete(e.adds, k)
	e.deletes[k] = r
	e.note(k)
}

func (e *emul) update(old, nw Row) bool {
	e.del(old)
	if !e.t.KeyEq(e.pk, old, nw, e.o.Cmp) {
		if _, ok := e.get(nw); ok {
			return false
		}
	}
	if _, ok := e.uniqueConflict(nw); ok {
		return false
	}
	k := e.key(nw)
	e.adds[k] = nw
	e.note(k)
	return true
}

func (e *emul) apply() []Row {
	rows := append([]Row(nil), e.stored...)
	keys := append([]string(nil), e.order...)
	sort.Strings(keys)
	for _, k := range keys {
		d, ok := e.deletes[k]
		if !ok {
			continue
		}
		// deleteHelper: the first stored row that agrees on the primary key (raw comparison) or equals
		// the whole row under the columns' collations goes
		for i, s := range rows {
			if e.t.KeyEq(e.pk, s, d, e.o.Cmp) || e.t.rowEqualsColl(s, d) {
				rows = append(rows[:i:i], rows[i+1:]...)
				break
			}
		}
	}
	for _, k := range keys {
		a, ok := e.adds[k]
		if !ok {
			continue
		}
		done := false
		for i, s := range rows {
			if e.t.KeyEq(e.pk, s, a, e.o.Cmp) {
				rows[i] = a
				done = true
				break
			}
		}
		if !done {
			rows = append(rows, a)
		}
	}
	return rows
}

// ApplyLikeAccumulator replays the statement the way the engine's keyed edit accumulator does and
// returns the outcome and the resulting rows; ok is false when the emulation does not cover the
// statement (keyless table, statement outside the specified fragment).
func (t *Table) ApplyLikeAccumulator(st *Stmt, o EmulOpts) (out *Outcome, rows []string, ok bool) {
	pk := t.PK()
	if pk == nil {
		return nil, nil, false
	}
	e := &emul{t: t, pk: pk, o: o, stored: t.Clone().Rows, adds: map[string]Row{}, deletes: map[string]Row{}}
	out = &Outcome{Matched: -1}
	fail := func(c string) (*Outcome, []string, bool) {
		out.Err = c
		out.ErrAny = map[string]bool{c: true}
		out.AffMin, out.AffMax = 0, 0
		return out, t.CanonRows(), true
	}
	switch st.Kind {
	case SInsert, SInsertIgnore, SReplace, SInsertODKU:
		if st.Src != nil && !st.Src.From.IsTotalOrder(st.Src.Order) {
			return nil, nil, false
		}
		cols := st.Cols
		if cols == nil {
			cols = make([]int, len(t.Cols))
			for i := range cols {
				cols[i] = i
			}
		}
		for _, pr := range t.proposedRows(st) {
			row := make(Row, len(t.Cols))
			for i := range row {
				row[i] = Null
			}
			for k, ci := range cols {
				if pr[k].isOverflow() {
					return nil, nil, false
				}
				v, ec := t.Cols[ci].Store(pr[k])
				if ec != "" {
					if st.Kind == SInsertIgnore {
						return nil, nil, false
					}
					return fail(ec)
				}
				row[ci] = v
			}
			switch st.Kind {
			case SInsert:
				if _, c := e.insert(row); c {
					return fail(ErrDup)
				}
				out.AffMin++
				out.AffMax++
			case SInsertIgnore:
				if _, c := e.insert(row); !c {
					out.AffMin++
					out.AffMax++
				}
			case SReplace:
				var dels []Row
				for guard := 0; ; guard++ {
					x, c := e.insert(row)
					if !c {
						break
					}
					if guard > 50 {
						return nil, nil, false
					}
					e.del(x)
					dels = append(dels, x)
				}
				n := int64(len(dels))
				out.AffMax += 1 + n
				switch {
				case n == 1 && dels[0].Same(row):
					out.AffMin++ // identical-row replace may be reported as 1
				case n > 1:
					out.AffMin += 2 // F15: at most one deleted row is counted
				default:
					out.AffMin += 1 + n
				}
			case SInsertODKU:
				x, c := e.insert(row)
				if !c {
					out.AffMin++
					out.AffMax++
					continue
				}
				nw := x.Copy()
				for _, a := range st.ODKU {
					ev := a.E.eval(x, row)
					if ev.isOverflow() {
						return nil, nil, false
					}
					v, ec := t.Cols[a.Col].Store(ev)
					if ec != "" {
						if ec == ErrRange && t.Cols[a.Col].Type.Kind == KInt {
							return nil, nil, false
						}
						return fail(ec)
					}
					nw[a.Col] = v
				}
				if !e.update(x, nw) {
					return fail(ErrDup)
				}
				if !t.rowEqualsColl(nw, x) {
					out.AffMin += 2
					out.AffMax += 2
				}
			}
		}
	case SUpdate:
		total := len(st.Order) > 0 && t.IsTotalOrder(st.Order)
		sel := t.selectRows(st.Where, st.Order, st.Limit)
		out.Matched = int64(len(sel))
		if !total && len(sel) > 1 {
			keyc := t.keyCols()
			for _, a := range st.Set {
				if keyc[a.Col] {
					return nil, nil, false
				}
			}
		}
		errs := map[string]bool{}
		for _, i := range sel {
			old := t.Rows[i]
			nw := old.Copy()
			rowErr := ""
			for _, a := range st.Set {
				ev := a.E.eval(old, nil)
				if ev.isOverflow() {
					return nil, nil, false
				}
				v, ec := t.Cols[a.Col].Store(ev)
				if ec != "" {
					if ec == ErrRange && t.Cols[a.Col].Type.Kind == KInt {
						return nil, nil, false
					}
					rowErr = ec
				}
				nw[a.Col] = v
			}
			changed := !t.rowEqualsColl(nw, old) // the engine's "did the row change" test is collation-aware
			if rowErr == "" && changed && !e.update(old, nw) {
				rowErr = ErrDup
			}
			if rowErr != "" {
				if total || len(sel) == 1 {
					return fail(rowErr)
				}
				errs[rowErr] = true
				continue
			}
			if changed {
				out.AffMin++
				out.AffMax++
			}
		}
		if len(errs) > 0 {
			for c := range errs {
				out.Err = c
			}
			out.ErrAny = errs
			out.AffMin, out.AffMax = 0, 0
			return out, t.CanonRows(), true
		}
	case SDelete:
		for _, i := range t.selectRows(st.Where, st.Order, st.Limit) {
			e.del(t.Rows[i])
			out.AffMin++
			out.AffMax++
		}
	}
	res := e.apply()
	tmp := &Table{Rows: res}
	return out, tmp.CanonRows(), true
}

// rowEqualsColl compares two rows the way sql.Row.Equals does: strings under their column's collation.
func (t *Table) rowEqualsColl(a, b Row) bool {
	for i := range a {
		ct := t.Cols[i].Type
		if ct.Kind == KStr && !a[i].Null && !b[i].Null && (ct.Coll == CollAiCi || ct.Coll == CollGeneralCi) {
			if Fold(a[i].S) != Fold(b[i].S) {
				return false
			}
			continue
		}
		if !a[i].Same(b[i]) {
			return false
		}
	}
	return true
}
