package g8alib

import (
	"fmt"
	"math/rand"
)

// Schema is one generated scenario: the target table, the source table of INSERT … SELECT, and the
// per-column value pools (a small key space, so that collisions are the norm).
type Schema struct {
	Domain string
	T      *Table
	S      *Table  // same columns as T (all nullable, no keys) plus a last column r INT PRIMARY KEY
	Pool   [][]Val // storable candidates per column of T
	Bad    [][]Val // unstorable candidates per column of T (out of range / too long)
	Opts   GenOpts
}

// GenOpts steers the statement generator.
type GenOpts struct {
	AllowBad   bool // NULL into NOT NULL and out-of-range values (never under IGNORE)
	MaxRows    int
	KeyUpdates int // percent of UPDATEs that assign a key column
	WKind      [6]int
	MultiRow   int // percent of inserts with more than one row
	NullPct    int // percent of NULLs proposed for nullable columns (0: one in nine)
}

func pick(rnd *rand.Rand, vs []Val) Val { return vs[rnd.Intn(len(vs))] }

func intPool(vs ...int64) []Val {
	out := make([]Val, len(vs))
	for i, v := range vs {
		out[i] = IntV(v)
	}
	return out
}

func strPool(vs ...string) []Val {
	out := make([]Val, len(vs))
	for i, v := range vs {
		out[i] = StrV(v)
	}
	return out
}

// decPool takes values in tenths/hundredths given as (unscaled, scale) pairs.
func decPool(pairs ...int64) []Val {
	var out []Val
	for i := 0; i+1 < len(pairs); i += 2 {
		out = append(out, DecV(pairs[i], int(pairs[i+1])))
	}
	return out
}

// ---- C13 schemas: general DML over small key spaces ----

type colSpec struct {
	typ  ColType
	pool []Val
	bad  []Val
}

func c13ColSpec(rnd *rand.Rand, key bool) colSpec {
	n := int64(6 + rnd.Intn(4))
	ints := func(lo int64) []Val {
		var vs []int64
		for i := int64(0); i < n; i++ {
			vs = append(vs, lo+i)
		}
		return intPool(vs...)
	}
	switch rnd.Intn(6) {
	case 0:
		return colSpec{TTiny, append(ints(-2), IntV(127), IntV(-128)), intPool(128, -129, 300)}
	case 1:
		return colSpec{TInt32, append(ints(0), IntV(2147483647)), intPool(2147483648, -2147483649)}
	case 2:
		return colSpec{TBigInt, append(ints(-1), IntV(9223372036854775807)), nil}
	case 3:
		return colSpec{TDec(4, 1), decPool(0, 1, 5, 1, 10, 1, 15, 1, 20, 1, -5, 1, 1, 0, 2, 0, 9995, 1, 25, 1), decPool(10000, 1, 1000, 0, -10000, 1)}
	case 4:
		return colSpec{TStr(4, CollBin), strPool("a", "b", "ab", "ba", "B", "c", "", "abcd", "bb"), strPool("abcde", "aaaaaa")}
	default:
		return colSpec{TInt32, ints(0), intPool(2147483648)}
	}
}

// GenSchemaC13 builds a schema for the general DML property.
func GenSchemaC13(rnd *rand.Rand) *Schema {
	sc := &Schema{Domain: "general"}
	t := &Table{Name: "t"}
	ncol := 3 + rnd.Intn(3)
	for i := 0; i < ncol; i++ {
		sp := c13ColSpec(rnd, false)
		t.Cols = append(t.Cols, Column{Name: fmt.Sprintf("c%d", i), Type: sp.typ})
		sc.Pool = append(sc.Pool, sp.pool)
		sc.Bad = append(sc.Bad, sp.bad)
	}
	perm := rnd.Perm(ncol)
	next := 0
	take := func(n int) []int {
		if next+n > len(perm) {
			return nil
		}
		out := append([]int(nil), perm[next:next+n]...)
		next += n
		return out
	}
	pkKind := rnd.Intn(10)
	switch {
	case pkKind < 2: // keyless
		sc.Domain = "general/keyless"
	case pkKind < 6:
		cs := take(1)
		t.Keys = append(t.Keys, Key{Name: "PRIMARY", Cols: cs, Primary: true, Unique: true})
		sc.Domain = "general/pk1"
	default:
		cs := take(2)
		t.Keys = append(t.Keys, Key{Name: "PRIMARY", Cols: cs, Primary: true, Unique: true})
		sc.Domain = "general/pk2"
	}
	nuk := rnd.Intn(3)
	for k := 0; k < nuk; k++ {
		w := 1
		if rnd.Intn(3) == 0 {
			w = 2
		}
		cs := take(w)
		if cs == nil {
			break
		}
		t.Keys = append(t.Keys, Key{Name: fmt.Sprintf("uk%d", k), Cols: cs, Unique: true})
		sc.Domain += fmt.Sprintf("+uk%d", w)
	}
	for _, k := range t.Keys {
		if k.Primary {
			for _, c := range k.Cols {
				t.Cols[c].NotNull = true
			}
		}
	}
	// NOT NULL on some other columns
	for i := range t.Cols {
		if !t.Cols[i].NotNull && rnd.Intn(4) == 0 {
			t.Cols[i].NotNull = true
		}
	}
	// secondary indexes over any columns (also key columns: gives the planner a choice)
	nsec := rnd.Intn(3)
	for k := 0; k < nsec; k++ {
		c := rnd.Intn(ncol)
		cols := []int{c}
		if rnd.Intn(3) == 0 {
			d := rnd.Intn(ncol)
			if d != c {
				cols = append(cols, d)
			}
		}
		t.Keys = append(t.Keys, Key{Name: fmt.Sprintf("ix%d", k), Cols: cols})
	}
	if nsec > 0 {
		sc.Domain += "+ix"
	}
	sc.T = t
	sc.Opts = GenOpts{AllowBad: true, MaxRows: 18, KeyUpdates: 35, WKind: [6]int{22, 12, 12, 12, 26, 16}, MultiRow: 55}
	sc.makeSource(rnd)
	return sc
}

// makeSource derives the INSERT … SELECT source table and its seed rows.
func (sc *Schema) makeSource(rnd *rand.Rand) {
	s := &Table{Name: "s"}
	for _, c := range sc.T.Cols {
		s.Cols = append(s.Cols, Column{Name: c.Name, Type: c.Type})
	}
	s.Cols = append(s.Cols, Column{Name: "r", Type: TInt32, NotNull: true})
	s.Keys = []Key{{Name: "PRIMARY", Cols: []int{len(s.Cols) - 1}, Primary: true, Unique: true}}
	n := 4 + rnd.Intn(5)
	for i := 0; i < n; i++ {
		row := make(Row, len(s.Cols))
		for c := range sc.T.Cols {
			if rnd.Intn(8) == 0 {
				row[c] = Null
				continue
			}
			v, e := sc.T.Cols[c].Store(pick(rnd, sc.Pool[c]))
			if e != "" {
				v = Null
			}
			row[c] = v
		}
		row[len(s.Cols)-1] = IntV(int64(i + 1))
		s.Rows = append(s.Rows, row)
	}
	sc.S = s
}

// SetupSQL returns the statements that create both tables and seed the source table.
func (sc *Schema) SetupSQL() []string {
	out := []string{sc.T.DDL(), sc.S.DDL()}
	for _, r := range sc.S.Rows {
		st := Stmt{Kind: SInsert, Rows: []Row{r}}
		out = append(out, st.SQL(sc.S))
	}
	return out
}

// ---- statement generation ----

// foldingCol: a string column whose collation order is not the byte order; such columns are never
// used in WHERE comparisons or ORDER BY (only key equality is modelled for them).
func (sc *Schema) foldingCol(ci int) bool {
	c := sc.T.Cols[ci].Type
	return c.Kind == KStr && c.Coll != CollBin
}

func (sc *Schema) value(rnd *rand.Rand, ci int, allowBad bool) Val {
	c := &sc.T.Cols[ci]
	if allowBad && sc.Opts.AllowBad && rnd.Intn(100) < 2 {
		if c.NotNull && (len(sc.Bad[ci]) == 0 || rnd.Intn(2) == 0) {
			return Null
		}
		if len(sc.Bad[ci]) > 0 {
			return pick(rnd, sc.Bad[ci])
		}
	}
	if !c.NotNull {
		if sc.Opts.NullPct == 0 {
			if rnd.Intn(9) == 0 {
				return Null
			}
		} else if rnd.Intn(100) < sc.Opts.NullPct {
			return Null
		}
	}
	return pick(rnd, sc.Pool[ci])
}

func (sc *Schema) storable(rnd *rand.Rand, ci int) Val {
	for {
		v := pick(rnd, sc.Pool[ci])
		if _, e := sc.T.Cols[ci].Store(v); e == "" {
			return v
		}
	}
}

func (sc *Schema) genAtom(rnd *rand.Rand, t *Table, ncols int) *Pred {
	var cands []int
	for ci := 0; ci < ncols; ci++ {
		if !sc.foldingCol(ci) {
			cands = append(cands, ci)
		}
	}
	if len(cands) == 0 {
		return nil
	}
	ci := cands[rnd.Intn(len(cands))]
	switch k := rnd.Intn(10); {
	case k < 5:
		ops := []string{"=", "=", "<>", "<", "<=", ">", ">="}
		op, v := ops[rnd.Intn(len(ops))], sc.storable(rnd, ci)
		if op == "<>" && sc.T.Excl.NeFractionalDecimal && NeFractionalOnIndexedDecimal(t, ci, v) {
			op = "=" // excluded input class (known finding, via=domain)
		}
		return &Pred{Op: "cmp", Col: ci, Cmp: op, Vals: []Val{v}}
	case k < 6:
		return &Pred{Op: "isnull", Col: ci}
	case k < 7:
		return &Pred{Op: "notnull", Col: ci}
	case k < 8:
		a, b := sc.storable(rnd, ci), sc.storable(rnd, ci)
		if cmpVals(a, b) > 0 {
			a, b = b, a
		}
		return &Pred{Op: "between", Col: ci, Vals: []Val{a, b}}
	default:
		n := 2 + rnd.Intn(2)
		var vs []Val
		for i := 0; i < n; i++ {
			vs = append(vs, sc.storable(rnd, ci))
		}
		return &Pred{Op: "in", Col: ci, Vals: vs}
	}
}

func (sc *Schema) genWhere(rnd *rand.Rand, t *Table, ncols int) *Pred {
	a := sc.genAtom(rnd, t, ncols)
	if a == nil || rnd.Intn(3) > 0 {
		return a
	}
	b := sc.genAtom(rnd, t, ncols)
	op := "and"
	if rnd.Intn(2) == 0 {
		op = "or"
	}
	return &Pred{Op: op, L: a, R: b}
}

// genTotalOrder builds an ORDER BY that is total on t (nil when none exists).
func (sc *Schema) genTotalOrder(rnd *rand.Rand, t *Table) []OrderKey {
	var base []int
	var quals [][]int
keys:
	for _, k := range t.Keys {
		if !k.Unique {
			continue
		}
		for i, ci := range k.Cols {
			ct := t.Cols[ci].Type
			if (!k.Primary && !t.Cols[ci].NotNull) || (i < len(k.Prefix) && k.Prefix[i] > 0) ||
				(ct.Kind == KStr && ct.Coll != CollBin) {
				continue keys
			}
		}
		quals = append(quals, k.Cols)
	}
	if len(quals) > 0 {
		base = append(base, quals[rnd.Intn(len(quals))]...)
	} else {
		for ci := range t.Cols {
			ct := t.Cols[ci].Type
			if ct.Kind == KStr && ct.Coll != CollBin {
				return nil
			}
		}
		base = rnd.Perm(len(t.Cols))
	}
	var out []OrderKey
	if len(quals) > 0 && rnd.Intn(3) == 0 {
		// lead with some other column: the key then only breaks ties
		ci := rnd.Intn(len(t.Cols))
		ct := t.Cols[ci].Type
		if !(ct.Kind == KStr && ct.Coll != CollBin) {
			dup := false
			for _, b := range base {
				dup = dup || b == ci
			}
			if !dup {
				out = append(out, OrderKey{Col: ci, Desc: rnd.Intn(2) == 0})
			}
		}
	}
	desc := rnd.Intn(2) == 0
	for _, ci := range base {
		if rnd.Intn(4) == 0 {
			desc = !desc
		}
		out = append(out, OrderKey{Col: ci, Desc: desc})
	}
	return out
}

func (sc *Schema) genRows(rnd *rand.Rand, cols []int, n int, allowBad bool) []Row {
	var rows []Row
	for i := 0; i < n; i++ {
		row := make(Row, len(cols))
		bad := false
		for k, ci := range cols {
			v := sc.value(rnd, ci, allowBad && !bad)
			if _, e := sc.T.Cols[ci].Store(v); e != "" {
				bad = true
			}
			row[k] = v
		}
		rows = append(rows, row)
	}
	return rows
}

func (sc *Schema) genCols(rnd *rand.Rand) []int {
	t := sc.T
	if rnd.Intn(10) < 7 {
		return nil
	}
	var cols []int
	for ci, c := range t.Cols {
		if c.NotNull || rnd.Intn(3) > 0 {
			cols = append(cols, ci)
		}
	}
	rnd.Shuffle(len(cols), func(i, j int) { cols[i], cols[j] = cols[j], cols[i] })
	return cols
}

func (sc *Schema) genAssignExpr(rnd *rand.Rand, ci int, odku bool) Expr {
	t := sc.T
	c := t.Cols[ci]
	numeric := c.Type.Kind != KStr
	k := rnd.Intn(10)
	if odku {
		switch {
		case k < 4:
			return Expr{Op: EValues, Col: ci}
		case k < 6 && numeric:
			return Expr{Op: EValuesPlusCol, Col: ci}
		}
	}
	switch {
	case k < 7 && numeric && rnd.Intn(2) == 0:
		d := IntV(int64(1 + rnd.Intn(2)))
		if c.Type.Kind == KDec {
			d = DecV(5*int64(1+rnd.Intn(3)), 1)
		}
		if rnd.Intn(2) == 0 {
			d.I = -d.I
		}
		return Expr{Op: EColPlus, Col: ci, C: d}
	case k == 8:
		// another column of the same type
		for _, cj := range rnd.Perm(len(t.Cols)) {
			if cj != ci && t.Cols[cj].Type == c.Type {
				return Expr{Op: ECol, Col: cj}
			}
		}
	case k == 9 && (!c.NotNull || (sc.Opts.AllowBad && rnd.Intn(4) == 0)):
		return Expr{Op: EConst, C: Null}
	}
	if sc.Opts.AllowBad && len(sc.Bad[ci]) > 0 && c.Type.Kind != KInt && rnd.Intn(40) == 0 {
		return Expr{Op: EConst, C: pick(rnd, sc.Bad[ci])}
	}
	return Expr{Op: EConst, C: sc.storable(rnd, ci)}
}

func (sc *Schema) genAssigns(rnd *rand.Rand, odku bool, wantKey bool) []Assign {
	t := sc.T
	keyc := t.keyCols()
	var keyCols, plain []int
	for ci := range t.Cols {
		if keyc[ci] {
			keyCols = append(keyCols, ci)
		} else {
			plain = append(plain, ci)
		}
	}
	n := 1 + rnd.Intn(2)
	var chosen []int
	if wantKey && len(keyCols) > 0 {
		chosen = append(chosen, keyCols[rnd.Intn(len(keyCols))])
	}
	for len(chosen) < n {
		src := plain
		if len(src) == 0 {
			src = keyCols
		}
		c := src[rnd.Intn(len(src))]
		dup := false
		for _, x := range chosen {
			dup = dup || x == c
		}
		if dup {
			break
		}
		chosen = append(chosen, c)
	}
	var as []Assign
	for _, ci := range chosen {
		as = append(as, Assign{Col: ci, E: sc.genAssignExpr(rnd, ci, odku)})
	}
	return as
}

func (sc *Schema) genOne(rnd *rand.Rand) *Stmt {
	t := sc.T
	o := sc.Opts
	w := o.WKind
	if len(t.Rows) > o.MaxRows {
		w[SDelete] += 60
	}
	if len(t.Rows) < 3 {
		w[SInsert] += 40
	}
	tot := 0
	for _, x := range w {
		tot += x
	}
	x := rnd.Intn(tot)
	kind := SInsert
	for k, wk := range w {
		if x < wk {
			kind = StmtKind(k)
			break
		}
		x -= wk
	}
	st := &Stmt{Kind: kind, Limit: -1}
	switch kind {
	case SInsert, SInsertIgnore, SReplace, SInsertODKU:
		if kind != SInsertODKU && rnd.Intn(100) < 12 {
			// INSERT … SELECT from s
			s := sc.S
			cols := sc.genCols(rnd)
			st.Cols = cols
			if cols == nil {
				cols = make([]int, len(t.Cols))
				for i := range cols {
					cols[i] = i
				}
			}
			src := &Source{From: s}
			for _, ci := range cols {
				e := Expr{Op: ECol, Col: ci}
				if t.Cols[ci].Type.Kind != KStr && rnd.Intn(3) == 0 {
					d := IntV(int64(1 + rnd.Intn(3)))
					if t.Cols[ci].Type.Kind == KDec {
						d = DecV(5, 1)
					}
					e = Expr{Op: EColPlus, Col: ci, C: d}
				} else if rnd.Intn(8) == 0 {
					e = Expr{Op: EConst, C: sc.storable(rnd, ci)}
				}
				src.Exprs = append(src.Exprs, e)
			}
			if rnd.Intn(3) > 0 {
				src.Where = sc.genWhere(rnd, s, len(t.Cols))
			}
			dir := rnd.Intn(2) == 0
			src.Order = []OrderKey{{Col: len(s.Cols) - 1, Desc: dir}}
			st.Src = src
			return st
		}
		st.Cols = sc.genCols(rnd)
		cols := st.Cols
		if cols == nil {
			cols = make([]int, len(t.Cols))
			for i := range cols {
				cols[i] = i
			}
		}
		n := 1
		if rnd.Intn(100) < o.MultiRow {
			n = 2 + rnd.Intn(4)
		}
		st.Rows = sc.genRows(rnd, cols, n, kind != SInsertIgnore)
		if kind == SInsertODKU {
			st.ODKU = sc.genAssigns(rnd, true, rnd.Intn(100) < 12)
		}
	case SUpdate:
		wantKey := rnd.Intn(100) < o.KeyUpdates
		st.Set = sc.genAssigns(rnd, false, wantKey)
		if rnd.Intn(10) < 8 {
			st.Where = sc.genWhere(rnd, t, len(t.Cols))
		}
		touches := false
		keyc := t.keyCols()
		for _, a := range st.Set {
			touches = touches || keyc[a.Col]
		}
		if touches || rnd.Intn(10) < 3 {
			st.Order = sc.genTotalOrder(rnd, t)
			if st.Order != nil && rnd.Intn(10) < 3 {
				st.Limit = rnd.Intn(4)
			}
		}
	case SDelete:
		if rnd.Intn(10) < 9 {
			st.Where = sc.genWhere(rnd, t, len(t.Cols))
		}
		if rnd.Intn(10) < 3 {
			st.Order = sc.genTotalOrder(rnd, t)
			if st.Order != nil {
				st.Limit = rnd.Intn(4)
			}
		}
	}
	return st
}

// Next generates the next statement for the current model state: a statement whose outcome the
// reference leaves open is never returned.
func (sc *Schema) Next(rnd *rand.Rand) *Stmt {
	for try := 0; try < 40; try++ {
		st := sc.genOne(rnd)
		trial := sc.T.Clone()
		out := trial.Apply(st, RightCmp)
		if out.Unspecified != "" {
			continue
		}
		if sc.T.Excl.UniqueCheckDeadRow {
			// excluded input class: a processed row agrees on a unique key with a row version removed
			// earlier in the statement — under the column's collation / character prefix, or bytewise
			if out.Shadowed {
				continue
			}
			if sc.hasNonBinaryKey() {
				raw := sc.T.Clone()
				if raw.Apply(st, KeyCmp{IgnoreCollation: true, PrefixInBytes: true}).Shadowed {
					continue
				}
			}
		}
		return st
	}
	// fallback that is always specified: a plain single-row insert of storable values
	cols := make([]int, len(sc.T.Cols))
	for i := range cols {
		cols[i] = i
	}
	row := make(Row, len(cols))
	for i := range cols {
		row[i] = sc.storable(rnd, i)
	}
	return &Stmt{Kind: SInsert, Rows: []Row{row}, Limit: -1}
}

// NeFractionalOnIndexedDecimal is the input class of a known finding: `col <> literal` where col is a
// DECIMAL column that is part of some index and the literal has a non-zero fractional part (the index range
// built for it is (NULL, ∞), so rows equal to the literal are selected as well).
func NeFractionalOnIndexedDecimal(t *Table, ci int, v Val) bool {
	if t.Cols[ci].Type.Kind != KDec || v.Null || v.Kind != KDec || v.Scale == 0 || v.I%pow10[v.Scale] == 0 {
		return false
	}
	for _, k := range t.Keys {
		for _, c := range k.Cols {
			if c == ci {
				return true
			}
		}
	}
	return false
}

// hasNonBinaryKey: some unique key has a prefix length or a string column with a folding collation.
func (sc *Schema) hasNonBinaryKey() bool {
	for _, k := range sc.T.Keys {
		if !k.Unique {
			continue
		}
		for i, c := range k.Cols {
			ct := sc.T.Cols[c].Type
			if (i < len(k.Prefix) && k.Prefix[i] > 0) || (ct.Kind == KStr && (ct.Coll == CollAiCi || ct.Coll == CollGeneralCi)) {
				return true
			}
		}
	}
	return false
}
