package g8alib

import (
	"fmt"
	"math/rand"
)

// C14 schemas: key domains built to collide ONLY under a wrong key comparison.
//
//	concat-int    composite integer keys whose printed concatenations collide: (1,23) / (12,3) / (123,…)
//	concat-str    composite string keys: ('a','bc') / ('ab','c') / ('abc',''), with separator-like characters
//	concat-mixed  (INT, DECIMAL) and three-column keys: (1,23.5) / (12,3.5); (1,2,34) / (12,3,4)
//	ci            case / accent variants under utf8mb4_0900_ai_ci, utf8mb4_general_ci, _0900_as_cs, _0900_bin
//	prefix        prefix unique keys whose prefixes agree or differ at the boundary character, multi-byte
//	              characters at the boundary
//	nulls         NULLs in unique keys (never conflict)
//	decimal       1 / 1.0 / 1.00, 0 / -0.0, in DECIMAL keys
var C14Domains = []string{"concat-int", "concat-str", "concat-mixed", "ci", "prefix", "nulls", "decimal"}

func (sc *Schema) addCol(name string, typ ColType, notNull bool, pool []Val) int {
	sc.T.Cols = append(sc.T.Cols, Column{Name: name, Type: typ, NotNull: notNull})
	sc.Pool = append(sc.Pool, pool)
	sc.Bad = append(sc.Bad, nil)
	return len(sc.T.Cols) - 1
}

// keyOrUnique makes cols the primary key, or a unique key next to an integer primary key "id".
func (sc *Schema) keyOrUnique(rnd *rand.Rand, cols []int, prefix []int, pkAllowed bool) {
	t := sc.T
	if pkAllowed && rnd.Intn(10) < 6 {
		for _, c := range cols {
			t.Cols[c].NotNull = true
		}
		t.Keys = append(t.Keys, Key{Name: "PRIMARY", Cols: cols, Primary: true, Unique: true})
		sc.Domain += "/pk"
		return
	}
	id := sc.addCol("id", TInt32, true, intPool(1, 2, 3, 4, 5, 6, 7, 8, 9, 10, 11, 12))
	t.Keys = append(t.Keys, Key{Name: "PRIMARY", Cols: []int{id}, Primary: true, Unique: true})
	t.Keys = append(t.Keys, Key{Name: "uk", Cols: cols, Prefix: prefix, Unique: true})
	sc.Domain += "/uk"
}

// GenSchemaC14 builds a schema of the given key-hostile domain.
func GenSchemaC14(rnd *rand.Rand, domain string) *Schema {
	sc := &Schema{Domain: domain, T: &Table{Name: "t"}}
	small := intPool(0, 1, 2, 3)
	switch domain {
	case "concat-int":
		a := sc.addCol("a", TInt32, false, intPool(1, 12, 123, 2, 23, -1, 1, 12))
		b := sc.addCol("b", TInt32, false, intPool(23, 3, 1, 31, 231, 2, -3, 23, 3))
		sc.addCol("v", TInt32, false, small)
		sc.keyOrUnique(rnd, []int{a, b}, nil, true)
	case "concat-str":
		a := sc.addCol("a", TStr(6, CollBin), false, strPool("a", "ab", "abc", "a|", "a,", "b", "", "a", "ab"))
		b := sc.addCol("b", TStr(6, CollBin), false, strPool("bc", "c", "", "|b", ",b", "b", "cd", "bc", "c"))
		sc.addCol("v", TInt32, false, small)
		sc.keyOrUnique(rnd, []int{a, b}, nil, true)
	case "concat-mixed":
		if rnd.Intn(2) == 0 {
			a := sc.addCol("a", TInt32, false, intPool(1, 12, 2, 1, 12))
			d := sc.addCol("d", TDec(5, 1), false, decPool(235, 1, 35, 1, 25, 1, 135, 1, 5, 1, 235, 1, 35, 1))
			sc.addCol("v", TInt32, false, small)
			sc.keyOrUnique(rnd, []int{a, d}, nil, true)
		} else {
			a := sc.addCol("a", TInt32, false, intPool(1, 12, 1, 12))
			b := sc.addCol("b", TInt32, false, intPool(2, 3, 23, 2, 3))
			c := sc.addCol("c", TInt32, false, intPool(34, 4, 4, 34))
			sc.addCol("v", TInt32, false, small)
			sc.keyOrUnique(rnd, []int{a, b, c}, nil, true)
		}
	case "ci":
		colls := []string{CollAiCi, CollGeneralCi, CollAiCi, CollGeneralCi, CollAsCs, CollBin}
		coll := colls[rnd.Intn(len(colls))]
		sc.Domain += "/" + coll
		s := sc.addCol("s", TStr(6, coll), false, strPool("a", "A", "á", "b", "B", "ab", "Ab", "aB", "e", "é", "E", "x"))
		cols := []int{s}
		if rnd.Intn(3) == 0 {
			n := sc.addCol("n", TInt32, false, intPool(1, 2))
			cols = append(cols, n)
		}
		sc.addCol("v", TInt32, false, small)
		sc.keyOrUnique(rnd, cols, nil, true)
	case "prefix":
		colls := []string{CollBin, CollBin, CollAiCi}
		coll := colls[rnd.Intn(len(colls))]
		n := 2 + rnd.Intn(2)
		sc.Domain += fmt.Sprintf("/%s/%d", coll, n)
		s := sc.addCol("s", TStr(8, coll), false, strPool("ab", "abc", "abd", "abcd", "abce", "ac", "a", "éa", "éb", "éé", "ééx", "ééy", "aé", "aéx", "aéy", "abé", "abx", "Abc"))
		sc.addCol("v", TInt32, false, small)
		sc.keyOrUnique(rnd, []int{s}, []int{n}, false) // a prefix PRIMARY KEY is unsupported by the engine
	case "nulls":
		a := sc.addCol("a", TInt32, false, intPool(1, 2, 3))
		b := sc.addCol("b", TInt32, false, intPool(1, 2))
		s := sc.addCol("s", TStr(4, CollBin), false, strPool("x", "y", ""))
		sc.addCol("v", TInt32, false, small)
		id := sc.addCol("id", TInt32, true, intPool(1, 2, 3, 4, 5, 6, 7, 8, 9, 10, 11, 12, 13, 14))
		t := sc.T
		if rnd.Intn(4) > 0 {
			t.Keys = append(t.Keys, Key{Name: "PRIMARY", Cols: []int{id}, Primary: true, Unique: true})
		} else {
			sc.Domain += "/keyless"
		}
		t.Keys = append(t.Keys, Key{Name: "uk1", Cols: []int{a}, Unique: true})
		t.Keys = append(t.Keys, Key{Name: "uk2", Cols: []int{b, s}, Unique: true})
	case "decimal":
		zero := DecV(0, 1)
		zero.NegZero = true
		pool := append(decPool(1, 0, 10, 1, 100, 2, 0, 0, 0, 1, 0, 2, 15, 1, 150, 2, 2, 0, -1, 0, -10, 1, 10, 0, 100, 1, 11, 1, 110, 2), zero)
		d := sc.addCol("d", TDec(5, 2), false, pool)
		cols := []int{d}
		if rnd.Intn(3) == 0 {
			n := sc.addCol("n", TInt32, false, intPool(1, 2))
			cols = append(cols, n)
		}
		sc.addCol("v", TInt32, false, small)
		sc.keyOrUnique(rnd, cols, nil, true)
	default:
		panic("g8alib: unknown C14 domain " + domain)
	}
	if rnd.Intn(3) == 0 {
		// a secondary index so that UPDATE / DELETE sometimes read through an index
		sc.T.Keys = append(sc.T.Keys, Key{Name: "ix", Cols: []int{sc.colByName("v")}})
	}
	sc.Opts = GenOpts{AllowBad: false, MaxRows: 14, KeyUpdates: 70, WKind: [6]int{30, 14, 15, 12, 18, 11}, MultiRow: 70, NullPct: 11}
	if domain == "nulls" {
		sc.Opts.NullPct = 35
	}
	sc.makeSource(rnd)
	return sc
}

func (sc *Schema) colByName(n string) int {
	for i, c := range sc.T.Cols {
		if c.Name == n {
			return i
		}
	}
	panic("g8alib: no column " + n)
}
