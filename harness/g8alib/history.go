package g8alib

import (
	"fmt"
	"math/rand"
	"sort"
	"strconv"
	"strings"

	gmssql "github.com/dolthub/go-mysql-server/sql"
	"github.com/dolthub/go-mysql-server/sql/plan"

	"verif/harness/core"
)

// Observed is what the engine did for one statement.
type Observed struct {
	Err      string // error class: "" | dup | notnull | range | other:<errno>:<message skeleton>
	ErrText  string
	Aff      int64
	Matched  int64 // -1 when the OkResult carries no UPDATE info
	InsertID uint64
	Rows     []string // table contents afterwards, canonical, sorted
	RawRows  []Row    // the same rows parsed back into model values (unsorted)
}

// ErrClassOf maps an engine failure to the model's error classes. inconclusive is non-empty for the
// documented "unsupported / cannot parse" class and for the watchdog.
func ErrClassOf(res *core.Result) (class string, inconclusive string) {
	if res.TimedOut {
		return "", "timeout"
	}
	if res.Err == nil {
		return "", ""
	}
	msg := res.Err.Error()
	switch res.ErrClass() {
	case "1062":
		return ErrDup, ""
	case "1048":
		return ErrNotNull, ""
	case "1264", "1406", "1690":
		return ErrRange, ""
	case "1064":
		return "", "parse-error"
	case "1235":
		return "", "unsupported"
	}
	low := strings.ToLower(msg)
	if gmssql.ErrValueOutOfRange.Is(res.Err) || strings.Contains(low, "out of range") || strings.Contains(low, "too large for column") {
		return ErrRange, ""
	}
	if gmssql.ErrUnsupportedFeature.Is(res.Err) || strings.Contains(low, "unsupported") || strings.Contains(low, "not supported") {
		return "", "unsupported"
	}
	return "other:" + res.ErrClass() + ":" + core.StripVolatile(msg), ""
}

// ParseRow turns an engine row back into model values using the column types.
func ParseRow(t *Table, row gmssql.Row) (Row, error) {
	if len(row) != len(t.Cols) {
		return nil, fmt.Errorf("row has %d columns, table %d", len(row), len(t.Cols))
	}
	out := make(Row, len(row))
	for i, v := range row {
		c := core.Canon(v)
		if c == "NULL" {
			out[i] = Null
			continue
		}
		switch t.Cols[i].Type.Kind {
		case KInt:
			n, err := strconv.ParseInt(c, 10, 64)
			if err != nil {
				return nil, fmt.Errorf("column %s: %q is not an integer", t.Cols[i].Name, c)
			}
			out[i] = IntV(n)
		case KDec:
			neg := strings.HasPrefix(c, "-")
			c = strings.TrimPrefix(c, "-")
			ip, fp := c, ""
			if k := strings.IndexByte(c, '.'); k >= 0 {
				ip, fp = c[:k], c[k+1:]
			}
			n, err := strconv.ParseInt(ip+fp, 10, 64)
			if err != nil {
				return nil, fmt.Errorf("column %s: %q is not a decimal", t.Cols[i].Name, c)
			}
			if neg {
				n = -n
			}
			out[i] = DecV(n, len(fp))
		default:
			if len(c) < 2 || c[0] != '\'' {
				return nil, fmt.Errorf("column %s: %q is not a string", t.Cols[i].Name, c)
			}
			out[i] = StrV(c[1 : len(c)-1])
		}
	}
	return out, nil
}

// Mismatch describes how an observation deviates from the reference ("" = conforms).
func Mismatch(exp *Outcome, expRows []string, obs *Observed) string {
	switch {
	case exp.Err == "" && obs.Err != "":
		return "unexpected-error:" + obs.Err
	case exp.Err != "" && obs.Err == "":
		return "missing-error:" + exp.Err
	case exp.Err != "" && !exp.ErrAny[obs.Err]:
		return "wrong-error:" + obs.Err + "-for-" + exp.Err
	}
	if !core.SameStrings(expRows, obs.Rows) {
		if exp.Err != "" {
			return "failed-statement-changed-rows"
		}
		return "rows-differ"
	}
	if exp.Err != "" {
		return ""
	}
	if obs.Aff < exp.AffMin || obs.Aff > exp.AffMax {
		return "affected-count"
	}
	if exp.Matched >= 0 && obs.Matched >= 0 && obs.Matched != exp.Matched {
		return "matched-count"
	}
	return ""
}

// MismatchKeysOnly is Mismatch restricted to duplicate exactness, contents and atomicity.
func MismatchKeysOnly(exp *Outcome, expRows []string, obs *Observed) string {
	m := Mismatch(exp, expRows, obs)
	switch {
	case m == "affected-count" || m == "matched-count":
		return ""
	case strings.HasPrefix(m, "wrong-error:") && exp.Err != ErrDup && obs.Err != ErrDup && !exp.ErrAny[ErrDup]:
		return ""
	}
	return m
}

// ProbeKnown replays the witnesses of the defects whose input classes are excluded via=domain and
// reports which of them are still present on the tree under test.
func ProbeKnown() (k Known) {
	probe := func(setup []string, q string, check func(res *core.Result, rows []string) bool) bool {
		e := core.NewEng("d")
		defer e.Close()
		s := e.NewSess()
		for _, x := range setup {
			if s.Exec(x).Failed() {
				return false
			}
		}
		res := s.Exec(q)
		rb := s.Exec("SELECT * FROM t")
		if rb.Failed() {
			return false
		}
		return check(res, core.SortedRows(rb.Rows))
	}
	k.IntAssignClamp = probe([]string{"CREATE TABLE t (id INT PRIMARY KEY, ti TINYINT)", "INSERT INTO t VALUES (1,100)"},
		"UPDATE t SET ti = ti + 100 WHERE id = 1", func(res *core.Result, rows []string) bool { return !res.Failed() })
	k.UniqueCheckDeadRow = probe([]string{"CREATE TABLE t (id INT PRIMARY KEY, k INT, v INT, UNIQUE KEY uk (k))", "INSERT INTO t VALUES (1,10,0),(2,20,0)"},
		"UPDATE t SET k = 10, v = v + 1 ORDER BY id", func(res *core.Result, rows []string) bool {
			return !res.Failed() && core.SameStrings(rows, []string{"1|10|1", "2|10|1"})
		})
	k.NeFractionalDecimal = probe([]string{"CREATE TABLE t (id INT PRIMARY KEY, d DECIMAL(4,1), KEY (d))", "INSERT INTO t VALUES (1,2.5),(2,1.0),(3,NULL)"},
		"DELETE FROM t WHERE d <> 2.5", func(res *core.Result, rows []string) bool {
			return !res.Failed() && !core.SameStrings(rows, []string{"1|2.5", "3|NULL"})
		})
	return k
}

// Step is one executed statement of a history, kept for the witness.
type Step struct {
	SQL string `json:"sql"`
	Exp string `json:"expected"`
	Got string `json:"engine"`
}

// HistoryCfg configures the history runner.
type HistoryCfg struct {
	Steps     int
	Invariant bool // evaluate C14's stored-rows invariant after every statement
	// Classify names the failure class of a mismatch (a narrow signature). pre is the model before the
	// statement.
	Classify func(sc *Schema, pre *Table, st *Stmt, exp *Outcome, expRows []string, obs *Observed, mode string) string
	// InvariantSig names an invariant breach; defect is the known-defect comparator under which the
	// breach disappears ("" when none).
	InvariantSig func(sc *Schema, key string, a, b Row) string
	// KeysOnly restricts the judgement to what C14 states: duplicate rejection (iff), the branch taken
	// (table contents) and atomicity; affected/matched counts, ROW_COUNT() and the class of
	// non-duplicate errors are C13's business and are not compared.
	KeysOnly bool
	// Txn: percent of steps at which a transaction block (BEGIN … COMMIT/ROLLBACK) is opened.
	Txn int
}

func describe(err string, aff string, matched int64, rows []string) string {
	if err != "" {
		return "ERROR(" + err + ") rows=" + strings.Join(core.ClipStrings(rows, 40), " ; ")
	}
	m := ""
	if matched >= 0 {
		m = fmt.Sprintf(" matched=%d", matched)
	}
	return "OK affected=" + aff + m + " rows=" + strings.Join(core.ClipStrings(rows, 40), " ; ")
}

// Exec runs one DML statement and reads the table back.
func Exec(r *core.Run, s *core.Sess, t *Table, q string) (*Observed, *core.Result, string) {
	res := s.Exec(q)
	obs := &Observed{Matched: -1}
	if res.Panic != nil {
		return nil, res, ""
	}
	cls, inc := ErrClassOf(res)
	if inc != "" {
		return nil, res, inc
	}
	obs.Err = cls
	if res.Err != nil {
		obs.ErrText = res.Err.Error()
	} else if ok, is := res.Ok(); is {
		obs.Aff = int64(ok.RowsAffected)
		obs.InsertID = ok.InsertID
		if ui, isU := ok.Info.(plan.UpdateInfo); isU {
			obs.Matched = int64(ui.Matched)
		}
	} else {
		return nil, res, "dml-returned-no-okresult"
	}
	return obs, res, ""
}

// ReadBack fills obs.Rows / obs.RawRows from SELECT * (full scan, order-normalised in the harness).
func ReadBack(s *core.Sess, t *Table, obs *Observed) (*core.Result, string) {
	res := s.Exec("SELECT * FROM " + t.Name)
	if res.Panic != nil {
		return res, ""
	}
	if res.TimedOut {
		return res, "timeout"
	}
	if res.Err != nil {
		return res, "select-failed"
	}
	obs.Rows = core.SortedRows(res.Rows)
	obs.RawRows = obs.RawRows[:0]
	for _, row := range res.Rows {
		pr, err := ParseRow(t, row)
		if err != nil {
			return res, "unparsable-row:" + err.Error()
		}
		obs.RawRows = append(obs.RawRows, pr)
	}
	return res, ""
}

// RunHistory drives one generated history against a fresh engine and compares every step with the
// reference. It returns the number of steps that reached a verdict.
func RunHistory(r *core.Run, rnd *rand.Rand, sc *Schema, cfg *HistoryCfg, label string, caseNo int) int {
	e := core.NewEng("d")
	defer e.Close()
	s := e.NewSess()
	setup := sc.SetupSQL()
	for _, q := range setup {
		res := s.Exec(q)
		if res.Panic != nil {
			r.Violation(res.Panic.Sig(), map[string]any{"sql": q, "panic": res.Panic.Value})
			return 0
		}
		if res.Failed() {
			_, inc := ErrClassOf(res)
			if inc == "" {
				inc = "setup-failed:" + res.ErrClass()
			}
			r.Inconclusive("setup:" + inc)
			r.Count("setup-failed", 1)
			return 0
		}
	}
	t := sc.T
	var hist []Step
	witness := func(extra map[string]any) map[string]any {
		w := map[string]any{"label": label, "case": caseNo, "stream": r.CaseSeed(), "domain": sc.Domain, "setup": setup, "history": hist}
		for k, v := range extra {
			w[k] = v
		}
		return w
	}
	verdicts := 0
	inTxn := false
	var txnSnap *Table
	for step := 0; step < cfg.Steps; step++ {
		// optional transaction control (single session): the model snapshots at BEGIN
		if cfg.Txn > 0 {
			if !inTxn && rnd.Intn(100) < cfg.Txn {
				if res := s.Exec("BEGIN"); res.Failed() {
					r.Inconclusive("begin-failed")
					return verdicts
				}
				hist = append(hist, Step{SQL: "BEGIN"})
				inTxn, txnSnap = true, t.Clone()
			} else if inTxn && rnd.Intn(100) < 30 {
				q := "COMMIT"
				if rnd.Intn(2) == 0 {
					q = "ROLLBACK"
					t.Rows = txnSnap.Rows
				}
				if res := s.Exec(q); res.Failed() {
					r.Inconclusive("txn-end-failed")
					return verdicts
				}
				hist = append(hist, Step{SQL: q})
				r.Count("txn."+strings.ToLower(q), 1)
				inTxn = false
				// the contents after COMMIT/ROLLBACK are judged like any other step
				obs := &Observed{Matched: -1}
				if res, inc := ReadBack(s, t, obs); res.Panic != nil {
					r.Violation(res.Panic.Sig(), witness(map[string]any{"statement": "SELECT * after " + q, "panic": res.Panic.Value}))
					return verdicts
				} else if inc != "" {
					r.Inconclusive(inc)
					return verdicts
				}
				r.Eval(1)
				verdicts++
				if expRows := t.CanonRows(); !core.SameStrings(expRows, obs.Rows) {
					sig := "txn:" + strings.ToLower(q) + ":rows-differ"
					r.Violation(sig, witness(map[string]any{"statement": q, "expected_rows": expRows, "engine_rows": obs.Rows}))
					return verdicts
				}
			}
		}
		st := sc.Next(rnd)
		q := st.SQL(t)
		pre := t.Clone()
		exp := t.Apply(st, RightCmp)
		expRows := t.CanonRows()
		obs, res, inc := Exec(r, s, t, q)
		if res.Panic != nil {
			hist = append(hist, Step{SQL: q, Exp: describe(exp.Err, exp.AffText(), exp.Matched, expRows), Got: "PANIC " + res.Panic.Value})
			r.Violation(res.Panic.Sig(), witness(map[string]any{"statement": q, "panic": res.Panic.Value, "stack": core.Clip(res.Panic.Stack, 3000)}))
			return verdicts
		}
		if inc != "" {
			r.Inconclusive(inc)
			r.Count("inconclusive."+st.Kind.String(), 1)
			return verdicts
		}
		// ROW_COUNT() must repeat the OK packet's count (sampled; must come before any other statement)
		rowCount := int64(-2)
		if obs.Err == "" && step%3 == 0 && !cfg.KeysOnly {
			rc := s.Exec("SELECT ROW_COUNT()")
			if !rc.Failed() && len(rc.Rows) == 1 {
				if n, err := strconv.ParseInt(core.Canon(rc.Rows[0][0]), 10, 64); err == nil {
					rowCount = n
				}
			}
		}
		if rb, inc := ReadBack(s, t, obs); rb.Panic != nil {
			r.Violation(rb.Panic.Sig(), witness(map[string]any{"statement": "SELECT * after " + q, "panic": rb.Panic.Value}))
			return verdicts
		} else if inc != "" {
			r.Inconclusive(inc)
			return verdicts
		}
		hist = append(hist, Step{SQL: q, Exp: describe(exp.Err, exp.AffText(), exp.Matched, expRows), Got: describe(obs.Err, fmt.Sprint(obs.Aff), obs.Matched, obs.Rows)})
		r.Eval(1)
		verdicts++
		r.Count("stmt."+st.Kind.String(), 1)
		r.Count("outcome."+exp.Class, 1)
		if st.Src != nil {
			r.Count("stmt.insert-select", 1)
		}
		if inTxn {
			r.Count("stmt.in-transaction", 1)
		}
		r.Distinct(sc.Domain + "|" + st.Kind.String() + "|" + exp.Class)

		mode := Mismatch(exp, expRows, obs)
		if cfg.KeysOnly {
			mode = MismatchKeysOnly(exp, expRows, obs)
		}
		if mode == "" && rowCount != -2 && rowCount != obs.Aff {
			mode = "row_count()-differs-from-ok-packet"
		}
		if mode != "" {
			sig := st.Kind.String() + ":" + mode
			if cfg.Classify != nil {
				sig = cfg.Classify(sc, pre, st, exp, expRows, obs, mode)
			}
			r.Violation(sig, witness(map[string]any{"statement": q, "mismatch": mode,
				"expected": describe(exp.Err, exp.AffText(), exp.Matched, expRows),
				"engine":   describe(obs.Err, fmt.Sprint(obs.Aff), obs.Matched, obs.Rows), "engine_error": obs.ErrText, "row_count()": rowCount}))
			// a deviation in a count or in the error class leaves model and engine in step; any
			// other deviation ends the history (the states have diverged)
			if (exp.Err == "") != (obs.Err == "") || !core.SameStrings(expRows, obs.Rows) {
				return verdicts
			}
		}
		if cfg.Invariant {
			r.Count("invariant.evaluations", 1)
			if key, a, b := t.InvariantBreach(obs.RawRows, RightCmp); key != "" {
				sig := "invariant:two-stored-rows-agree-on-" + key
				if cfg.InvariantSig != nil {
					sig = cfg.InvariantSig(sc, key, a, b)
				}
				r.Violation(sig, witness(map[string]any{"statement": q, "key": key, "row1": a.Canon(), "row2": b.Canon()}))
				return verdicts
			}
		}
		if step == 7 && caseNo%97 == 0 {
			r.Sample(map[string]any{"domain": sc.Domain, "table": t.DDL(), "statement": q,
				"reference": describe(exp.Err, exp.AffText(), exp.Matched, expRows), "engine": describe(obs.Err, fmt.Sprint(obs.Aff), obs.Matched, obs.Rows)})
		}
		// how the engine reads the rows of UPDATE / DELETE (sampled, evidence only)
		if (st.Kind == SUpdate || st.Kind == SDelete) && st.Where != nil && (step+caseNo)%8 == 0 {
			p := s.Plan(q)
			switch {
			case strings.Contains(p, "IndexedTableAccess"):
				r.Count("plan.source-indexed", 1)
			case strings.HasPrefix(p, "ERR:"):
				r.Count("plan.unavailable", 1)
			default:
				r.Count("plan.source-scan", 1)
			}
		}
	}
	return verdicts
}

// SortedCopy returns a sorted copy of a string slice.
func SortedCopy(a []string) []string {
	b := append([]string(nil), a...)
	sort.Strings(b)
	return b
}
