package g8alib

import (
	"fmt"
	"sort"
	"strings"
)

// Key is a primary, unique or plain secondary index of a model table.
type Key struct {
	Name    string
	Cols    []int
	Prefix  []int // per column; 0 = whole value
	Primary bool
	Unique  bool // true for the primary key as well
}

// Table is the reference table: rows are a plain slice (a multiset); keyed tables keep the
// "no two rows agree on a unique key" discipline by construction of Apply.
// Known names the known engine defects that are still present on the tree under test (each monitor
// probes them with its pinned witnesses before generating anything). While a defect is present its
// input class is kept out of the generated domain (known finding via=domain); once the pinned witness
// goes quiet the class is generated and judged like everything else.
type Known struct {
	IntAssignClamp      bool // UPDATE/ODKU assignment of an out-of-range integer is clamped silently
	NeFractionalDecimal bool // col <> fractional literal on an indexed DECIMAL column selects equal rows
	UniqueCheckDeadRow  bool // unique check consults a row version deleted earlier in the same statement
}

type Table struct {
	Name string
	Cols []Column
	Keys []Key
	Rows []Row
	Excl Known

	// tomb holds the old versions of the rows deleted or updated so far by the statement being
	// applied; shadowed records that a conflict check met a tomb row with the same unique-key value
	// (the situation in which the engine's defect "pending delete hides the unique check" can act).
	tomb     []Row
	shadowed bool
}

func (t *Table) Clone() *Table {
	c := &Table{Name: t.Name, Cols: t.Cols, Keys: t.Keys, Excl: t.Excl}
	c.Rows = make([]Row, len(t.Rows))
	for i, r := range t.Rows {
		c.Rows[i] = r.Copy()
	}
	return c
}

// PK returns the primary key or nil.
func (t *Table) PK() *Key {
	for i := range t.Keys {
		if t.Keys[i].Primary {
			return &t.Keys[i]
		}
	}
	return nil
}

// DDL renders CREATE TABLE.
func (t *Table) DDL() string {
	var parts []string
	for _, c := range t.Cols {
		s := c.Name + " " + c.Type.DDL()
		if c.NotNull {
			s += " NOT NULL"
		}
		if c.AutoInc {
			s += " AUTO_INCREMENT"
		}
		parts = append(parts, s)
	}
	for _, k := range t.Keys {
		var cols []string
		for i, ci := range k.Cols {
			c := t.Cols[ci].Name
			if i < len(k.Prefix) && k.Prefix[i] > 0 {
				c += fmt.Sprintf("(%d)", k.Prefix[i])
			}
			cols = append(cols, c)
		}
		switch {
		case k.Primary:
			parts = append(parts, "PRIMARY KEY ("+strings.Join(cols, ", ")+")")
		case k.Unique:
			parts = append(parts, "UNIQUE KEY "+k.Name+" ("+strings.Join(cols, ", ")+")")
		default:
			parts = append(parts, "KEY "+k.Name+" ("+strings.Join(cols, ", ")+")")
		}
	}
	return "CREATE TABLE " + t.Name + " (" + strings.Join(parts, ", ") + ")"
}

// CanonRows renders the rows as a sorted multiset in core.Canon form.
func (t *Table) CanonRows() []string {
	out := make([]string, len(t.Rows))
	for i, r := range t.Rows {
		out[i] = r.Canon()
	}
	sort.Strings(out)
	return out
}

// KeyEq says whether two rows agree on a key (a NULL in any key column never agrees).
func (t *Table) KeyEq(k *Key, a, b Row, kc KeyCmp) bool {
	for i, ci := range k.Cols {
		x, y := a[ci], b[ci]
		if x.Null || y.Null {
			return false
		}
		switch t.Cols[ci].Type.Kind {
		case KInt:
			if x.I != y.I {
				return false
			}
		case KDec:
			if !x.Same(y) {
				return false
			}
		default:
			p := 0
			if i < len(k.Prefix) {
				p = k.Prefix[i]
			}
			if !kc.StrKeyEq(x.S, y.S, t.Cols[ci].Type.Coll, p) {
				return false
			}
		}
	}
	return true
}

// Conflicts returns the indexes (ascending) of the rows that agree with row on the primary key or on
// any unique key, excluding index skip.
func (t *Table) Conflicts(row Row, skip int, kc KeyCmp) []int {
	// unique (non-primary) keys on which a row deleted/updated earlier in this statement agrees
	var hidden map[int]bool
	if t.PK() != nil {
		for k := range t.Keys {
			if !t.Keys[k].Unique || t.Keys[k].Primary {
				continue
			}
			for _, old := range t.tomb {
				if t.KeyEq(&t.Keys[k], row, old, kc) {
					if hidden == nil {
						hidden = map[int]bool{}
					}
					hidden[k] = true
					break
				}
			}
		}
	}
	if len(hidden) > 0 {
		t.shadowed = true
	}
	var out []int
	for i, r := range t.Rows {
		if i == skip {
			continue
		}
		for k := range t.Keys {
			if t.Keys[k].Unique && t.KeyEq(&t.Keys[k], row, r, kc) {
				if hidden[k] && kc.ShadowByDeletes {
					continue
				}
				out = append(out, i)
				break
			}
		}
	}
	return out
}

// InvariantBreach looks for two stored rows that agree on a unique key (C14's invariant, evaluated on
// rows read back from the engine). It returns the key name and the two rows, or "".
func (t *Table) InvariantBreach(rows []Row, kc KeyCmp) (string, Row, Row) {
	for k := range t.Keys {
		if !t.Keys[k].Unique {
			continue
		}
		for i := 0; i < len(rows); i++ {
			for j := i + 1; j < len(rows); j++ {
				if t.KeyEq(&t.Keys[k], rows[i], rows[j], kc) {
					name := t.Keys[k].Name
					if t.Keys[k].Primary {
						name = "PRIMARY"
					}
					return name, rows[i], rows[j]
				}
			}
		}
	}
	return "", nil, nil
}

// ---- expressions, predicates ----

type ExprOp int

const (
	EConst         ExprOp = iota // C
	ECol                         // column Col
	EColPlus                     // column Col + C
	EValues                      // VALUES(Col)                (ON DUPLICATE KEY UPDATE only)
	EValuesPlusCol               // VALUES(Col) + column Col   (ON DUPLICATE KEY UPDATE only)
)

type Expr struct {
	Op  ExprOp
	Col int
	C   Val
}

// Overflow is the value of an integer expression that leaves the 64-bit range; statements that
// compute it are not generated (exact 64-bit arithmetic is C25's property).
var Overflow = Val{Kind: KInt, S: "overflow"}

func (v Val) isOverflow() bool { return !v.Null && v.Kind == KInt && v.S == "overflow" }

func addVals(a, b Val) Val {
	if a.isOverflow() || b.isOverflow() {
		return Overflow
	}
	if a.Null || b.Null {
		return Null
	}
	if a.Kind == KInt && b.Kind == KInt {
		c := a.I + b.I
		if (a.I > 0 && b.I > 0 && c < 0) || (a.I < 0 && b.I < 0 && c >= 0) {
			return Overflow
		}
		return IntV(c)
	}
	if a.Kind == KInt {
		a = DecV(a.I, 0)
	}
	if b.Kind == KInt {
		b = DecV(b.I, 0)
	}
	s := a.Scale
	if b.Scale > s {
		s = b.Scale
	}
	return DecV(a.Rescale(s).I+b.Rescale(s).I, s)
}

func (e Expr) eval(cur, proposed Row) Val {
	switch e.Op {
	case EConst:
		return e.C
	case ECol:
		return cur[e.Col]
	case EColPlus:
		return addVals(cur[e.Col], e.C)
	case EValues:
		return proposed[e.Col]
	case EValuesPlusCol:
		return addVals(proposed[e.Col], cur[e.Col])
	}
	panic("g8alib: bad expr")
}

func (e Expr) sql(t *Table) string {
	switch e.Op {
	case EConst:
		return e.C.SQL()
	case ECol:
		return t.Cols[e.Col].Name
	case EColPlus:
		if !e.C.Null && e.C.I < 0 {
			n := e.C
			n.I = -n.I
			return t.Cols[e.Col].Name + " - " + n.SQL()
		}
		return t.Cols[e.Col].Name + " + " + e.C.SQL()
	case EValues:
		return "VALUES(" + t.Cols[e.Col].Name + ")"
	case EValuesPlusCol:
		return "VALUES(" + t.Cols[e.Col].Name + ") + " + t.Cols[e.Col].Name
	}
	panic("g8alib: bad expr")
}

type Assign struct {
	Col int
	E   Expr
}

// Pred is a WHERE predicate (Kleene logic; a row is selected when it evaluates to TRUE).
type Pred struct {
	Op   string // "and" "or" "cmp" "isnull" "notnull" "between" "in"
	L, R *Pred
	Col  int
	Cmp  string // = <> < <= > >=
	Vals []Val
}

const (
	triF = 0
	triT = 1
	triN = 2
)

// cmpVals orders two non-NULL values of compatible kinds (strings bytewise).
func cmpVals(a, b Val) int {
	if a.Kind == KStr {
		return strings.Compare(a.S, b.S)
	}
	if a.Kind == KInt && b.Kind == KInt {
		switch {
		case a.I < b.I:
			return -1
		case a.I > b.I:
			return 1
		}
		return 0
	}
	if a.Kind == KInt {
		a = DecV(a.I, 0)
	}
	if b.Kind == KInt {
		b = DecV(b.I, 0)
	}
	s := a.Scale
	if b.Scale > s {
		s = b.Scale
	}
	x, y := a.Rescale(s).I, b.Rescale(s).I
	switch {
	case x < y:
		return -1
	case x > y:
		return 1
	}
	return 0
}

func cmpTri(a, b Val, op string) int {
	if a.Null || b.Null {
		return triN
	}
	c := cmpVals(a, b)
	ok := false
	switch op {
	case "=":
		ok = c == 0
	case "<>":
		ok = c != 0
	case "<":
		ok = c < 0
	case "<=":
		ok = c <= 0
	case ">":
		ok = c > 0
	case ">=":
		ok = c >= 0
	}
	if ok {
		return triT
	}
	return triF
}

func (p *Pred) eval(r Row) int {
	if p == nil {
		return triT
	}
	switch p.Op {
	case "and":
		a, b := p.L.eval(r), p.R.eval(r)
		if a == triF || b == triF {
			return triF
		}
		if a == triN || b == triN {
			return triN
		}
		return triT
	case "or":
		a, b := p.L.eval(r), p.R.eval(r)
		if a == triT || b == triT {
			return triT
		}
		if a == triN || b == triN {
			return triN
		}
		return triF
	case "cmp":
		return cmpTri(r[p.Col], p.Vals[0], p.Cmp)
	case "isnull":
		if r[p.Col].Null {
			return triT
		}
		return triF
	case "notnull":
		if r[p.Col].Null {
			return triF
		}
		return triT
	case "between":
		a, b := cmpTri(r[p.Col], p.Vals[0], ">="), cmpTri(r[p.Col], p.Vals[1], "<=")
		if a == triF || b == triF {
			return triF
		}
		if a == triN || b == triN {
			return triN
		}
		return triT
	case "in":
		res := triF
		for _, v := range p.Vals {
			switch cmpTri(r[p.Col], v, "=") {
			case triT:
				return triT
			case triN:
				res = triN
			}
		}
		return res
	}
	panic("g8alib: bad pred")
}

func (p *Pred) sql(t *Table) string {
	switch p.Op {
	case "and", "or":
		return "(" + p.L.sql(t) + " " + strings.ToUpper(p.Op) + " " + p.R.sql(t) + ")"
	case "cmp":
		return t.Cols[p.Col].Name + " " + p.Cmp + " " + p.Vals[0].SQL()
	case "isnull":
		return t.Cols[p.Col].Name + " IS NULL"
	case "notnull":
		return t.Cols[p.Col].Name + " IS NOT NULL"
	case "between":
		return t.Cols[p.Col].Name + " BETWEEN " + p.Vals[0].SQL() + " AND " + p.Vals[1].SQL()
	case "in":
		var vs []string
		for _, v := range p.Vals {
			vs = append(vs, v.SQL())
		}
		return t.Cols[p.Col].Name + " IN (" + strings.Join(vs, ", ") + ")"
	}
	panic("g8alib: bad pred")
}

// Cols lists the columns a predicate reads.
func (p *Pred) cols(into map[int]bool) {
	if p == nil {
		return
	}
	if p.Op == "and" || p.Op == "or" {
		p.L.cols(into)
		p.R.cols(into)
		return
	}
	into[p.Col] = true
}

type OrderKey struct {
	Col  int
	Desc bool
}

// ---- statements ----

type StmtKind int

const (
	SInsert StmtKind = iota
	SInsertIgnore
	SReplace
	SInsertODKU
	SUpdate
	SDelete
)

func (k StmtKind) String() string {
	return [...]string{"insert", "insert-ignore", "replace", "insert-odku", "update", "delete"}[k]
}

// Source is the SELECT of INSERT … SELECT: one projection expression per inserted column over the
// rows of another model table, filtered and totally ordered.
type Source struct {
	From  *Table
	Exprs []Expr
	Where *Pred
	Order []OrderKey
}

type Stmt struct {
	Kind  StmtKind
	Cols  []int // inserted columns (nil: all, in table order)
	Rows  []Row // VALUES
	Src   *Source
	ODKU  []Assign
	Set   []Assign
	Where *Pred
	Order []OrderKey
	Limit int // < 0: none
}

func orderSQL(t *Table, o []OrderKey) string {
	if len(o) == 0 {
		return ""
	}
	var ks []string
	for _, k := range o {
		s := t.Cols[k.Col].Name
		if k.Desc {
			s += " DESC"
		}
		ks = append(ks, s)
	}
	return " ORDER BY " + strings.Join(ks, ", ")
}

func assignsSQL(t *Table, as []Assign) string {
	var ss []string
	for _, a := range as {
		ss = append(ss, t.Cols[a.Col].Name+" = "+a.E.sql(t))
	}
	return strings.Join(ss, ", ")
}

// SQL renders the statement for table t.
func (st *Stmt) SQL(t *Table) string {
	switch st.Kind {
	case SInsert, SInsertIgnore, SReplace, SInsertODKU:
		head := "INSERT INTO "
		if st.Kind == SInsertIgnore {
			head = "INSERT IGNORE INTO "
		} else if st.Kind == SReplace {
			head = "REPLACE INTO "
		}
		var b strings.Builder
		b.WriteString(head + t.Name)
		if st.Cols != nil {
			var cs []string
			for _, c := range st.Cols {
				cs = append(cs, t.Cols[c].Name)
			}
			b.WriteString(" (" + strings.Join(cs, ", ") + ")")
		}
		if st.Src != nil {
			var es []string
			for _, e := range st.Src.Exprs {
				es = append(es, e.sql(st.Src.From))
			}
			b.WriteString(" SELECT " + strings.Join(es, ", ") + " FROM " + st.Src.From.Name)
			if st.Src.Where != nil {
				b.WriteString(" WHERE " + st.Src.Where.sql(st.Src.From))
			}
			b.WriteString(orderSQL(st.Src.From, st.Src.Order))
		} else {
			b.WriteString(" VALUES ")
			for i, r := range st.Rows {
				if i > 0 {
					b.WriteString(", ")
				}
				var vs []string
				for _, v := range r {
					vs = append(vs, v.SQL())
				}
				b.WriteString("(" + strings.Join(vs, ", ") + ")")
			}
		}
		if st.Kind == SInsertODKU {
			b.WriteString(" ON DUPLICATE KEY UPDATE " + assignsSQL(t, st.ODKU))
		}
		return b.String()
	case SUpdate:
		s := "UPDATE " + t.Name + " SET " + assignsSQL(t, st.Set)
		if st.Where != nil {
			s += " WHERE " + st.Where.sql(t)
		}
		s += orderSQL(t, st.Order)
		if st.Limit >= 0 {
			s += fmt.Sprintf(" LIMIT %d", st.Limit)
		}
		return s
	case SDelete:
		s := "DELETE FROM " + t.Name
		if st.Where != nil {
			s += " WHERE " + st.Where.sql(t)
		}
		s += orderSQL(t, st.Order)
		if st.Limit >= 0 {
			s += fmt.Sprintf(" LIMIT %d", st.Limit)
		}
		return s
	}
	panic("g8alib: bad stmt")
}

// Outcome is what the reference prescribes for one statement.
type Outcome struct {
	Err     string          // "" = succeeds; else the error class of the (first) failing row
	ErrAny  map[string]bool // every class the statement may legitimately fail with (unordered statements)
	AffMin  int64           // affected rows (a range only where MySQL's documented count is ambiguous)
	AffMax  int64
	Matched int64 // UPDATE: rows selected; -1 otherwise

	// Unspecified is non-empty when MySQL leaves the outcome open or the statement falls in an
	// excluded input class; such statements are never sent to the engine.
	Unspecified string

	// facts about the execution used for evidence and for recognising known defects
	Class          string // coarse outcome class for coverage
	Inserted       int
	Skipped        int   // IGNORE: rows skipped
	Deleted        int   // REPLACE/DELETE: rows deleted
	Updated        int   // UPDATE/ODKU: rows changed
	Unchanged      int   // UPDATE/ODKU: rows selected but equal
	AffCapped      int64 // REPLACE: the count if at most one deleted row were counted per replaced row (F15)
	MultiDelete    bool  // REPLACE deleted >= 2 rows for one new row
	ConcatCollide  bool  // two different PK tuples touched by the statement print to the same concatenation (F2)
	TransientOrder bool  // UPDATE of a key column processed in ORDER BY order
	Shadowed       bool  // a row processed by the statement agrees on a unique (non-primary) key with a row version deleted or updated EARLIER in the same statement
}

func (o *Outcome) AffText() string {
	if o.AffMin == o.AffMax {
		return fmt.Sprint(o.AffMin)
	}
	return fmt.Sprintf("%d..%d", o.AffMin, o.AffMax)
}

// IsTotalOrder reports whether ORDER BY o fixes the processing order of the table's rows up to
// interchangeable (identical) rows.
func (t *Table) IsTotalOrder(o []OrderKey) bool {
	in := map[int]bool{}
	for _, k := range o {
		in[k.Col] = true
	}
	folding := func(ci int) bool {
		c := t.Cols[ci].Type
		return c.Kind == KStr && c.Coll != CollBin
	}
	for _, k := range o {
		if folding(k.Col) {
			return false // ordering of folded strings is not modelled
		}
	}
keys:
	for _, k := range t.Keys {
		if !k.Unique {
			continue
		}
		for i, ci := range k.Cols {
			if !in[ci] || (!k.Primary && !t.Cols[ci].NotNull) || (i < len(k.Prefix) && k.Prefix[i] > 0) {
				continue keys
			}
		}
		return true
	}
	for ci := range t.Cols {
		if !in[ci] {
			return false
		}
	}
	return true // all columns: ties are identical rows
}

func (t *Table) keyCols() map[int]bool {
	m := map[int]bool{}
	for _, k := range t.Keys {
		if k.Unique {
			for _, c := range k.Cols {
				m[c] = true
			}
		}
	}
	return m
}

func sortRows(rows []Row, idx []int, o []OrderKey) {
	sort.SliceStable(idx, func(a, b int) bool {
		ra, rb := rows[idx[a]], rows[idx[b]]
		for _, k := range o {
			x, y := ra[k.Col], rb[k.Col]
			c := 0
			switch {
			case x.Null && y.Null:
				c = 0
			case x.Null:
				c = -1
			case y.Null:
				c = 1
			default:
				c = cmpVals(x, y)
			}
			if k.Desc {
				c = -c
			}
			if c != 0 {
				return c < 0
			}
		}
		return false
	})
}

// pkText prints a row's primary-key tuple the way fmt's %v concatenation would (no separator).
func (t *Table) pkText(pk *Key, r Row) (concat string, exact string) {
	var a, b strings.Builder
	for _, ci := range pk.Cols {
		v := r[ci]
		s := ""
		switch {
		case v.Null:
			s = "<nil>"
		case v.Kind == KDec:
			s = decText(v.I, v.Scale)
		case v.Kind == KInt:
			s = fmt.Sprint(v.I)
		default:
			s = v.S
		}
		a.WriteString(s)
		fmt.Fprintf(&b, "%d:%s;", len(s), s)
	}
	return a.String(), b.String()
}

type touched struct {
	t     *Table
	pk    *Key
	seen  map[string]string // concat -> exact
	clash bool
}

func (tc *touched) add(r Row) {
	if tc.pk == nil || len(tc.pk.Cols) < 2 {
		return
	}
	c, e := tc.t.pkText(tc.pk, r)
	if prev, ok := tc.seen[c]; ok && prev != e {
		tc.clash = true
	}
	if _, ok := tc.seen[c]; !ok {
		tc.seen[c] = e
	}
}

// Apply executes the statement on the model under the given key comparison. The table is modified
// only when the statement succeeds (statements are atomic).
func (t *Table) Apply(st *Stmt, kc KeyCmp) *Outcome {
	w := t.Clone()
	out := &Outcome{Matched: -1}
	tc := &touched{t: t, pk: t.PK(), seen: map[string]string{}}
	switch st.Kind {
	case SInsert, SInsertIgnore, SReplace, SInsertODKU:
		w.applyInsert(st, kc, out, tc)
	case SUpdate:
		w.applyUpdate(st, kc, out, tc)
	case SDelete:
		w.applyDelete(st, out, tc)
	}
	out.ConcatCollide = tc.clash
	out.Shadowed = w.shadowed
	if out.Unspecified != "" {
		return out
	}
	if out.Err != "" {
		if out.ErrAny == nil {
			out.ErrAny = map[string]bool{out.Err: true}
		}
		out.Class = "error-" + out.Err
		out.AffMin, out.AffMax = 0, 0
		return out
	}
	t.Rows = w.Rows
	return out
}

func (t *Table) proposedRows(st *Stmt) []Row {
	if st.Src == nil {
		return st.Rows
	}
	src := st.Src.From
	var idx []int
	for i, r := range src.Rows {
		if st.Src.Where.eval(r) == triT {
			idx = append(idx, i)
		}
	}
	sortRows(src.Rows, idx, st.Src.Order)
	var out []Row
	for _, i := range idx {
		row := make(Row, len(st.Src.Exprs))
		for k, e := range st.Src.Exprs {
			row[k] = e.eval(src.Rows[i], nil)
		}
		out = append(out, row)
	}
	return out
}

func (t *Table) applyInsert(st *Stmt, kc KeyCmp, out *Outcome, tc *touched) {
	if st.Src != nil && !st.Src.From.IsTotalOrder(st.Src.Order) {
		out.Unspecified = "INSERT … SELECT without a total ORDER BY on the source"
		return
	}
	cols := st.Cols
	if cols == nil {
		cols = make([]int, len(t.Cols))
		for i := range cols {
			cols[i] = i
		}
	}
	given := map[int]bool{}
	for _, c := range cols {
		given[c] = true
	}
	for ci, c := range t.Cols {
		if !given[ci] && c.NotNull && !c.AutoInc {
			out.Unspecified = "omitted NOT NULL column without default"
			return
		}
	}
	for _, pr := range t.proposedRows(st) {
		row := make(Row, len(t.Cols))
		for i := range row {
			row[i] = Null
		}
		bad := 0
		errc := ""
		for k, ci := range cols {
			if pr[k].isOverflow() {
				out.Unspecified = "64-bit overflow in an expression"
				return
			}
			v, e := t.Cols[ci].Store(pr[k])
			if e != "" {
				bad++
				if errc == "" {
					errc = e
				}
			}
			row[ci] = v
		}
		if bad > 1 {
			out.Unspecified = "more than one unstorable value in a row (error precedence not fixed)"
			return
		}
		if errc != "" {
			if st.Kind == SInsertIgnore {
				out.Unspecified = "IGNORE with an unstorable value (adjusted value not modelled)"
				return
			}
			out.Err = errc
			return
		}
		tc.add(row)
		conf := t.Conflicts(row, -1, kc)
		switch st.Kind {
		case SInsert:
			if len(conf) > 0 {
				out.Err = ErrDup
				return
			}
			t.Rows = append(t.Rows, row)
			out.Inserted++
			out.AffMin++
			out.AffMax++
			out.AffCapped++
		case SInsertIgnore:
			if len(conf) > 0 {
				out.Skipped++
				continue
			}
			t.Rows = append(t.Rows, row)
			out.Inserted++
			out.AffMin++
			out.AffMax++
		case SReplace:
			identical := len(conf) == 1 && t.Rows[conf[0]].Same(row)
			for k := len(conf) - 1; k >= 0; k-- {
				tc.add(t.Rows[conf[k]])
				t.tomb = append(t.tomb, t.Rows[conf[k]])
				t.Rows = append(t.Rows[:conf[k]], t.Rows[conf[k]+1:]...)
			}
			t.Rows = append(t.Rows, row)
			out.Inserted++
			out.Deleted += len(conf)
			n := int64(1 + len(conf))
			out.AffMax += n
			if identical {
				// MySQL's handler may turn delete+insert of an identical row into a no-op update
				// and then reports 1; the documented count is 2. Both are accepted.
				out.AffMin += 1
			} else {
				out.AffMin += n
			}
			if len(conf) >= 2 {
				out.MultiDelete = true
				out.AffCapped += 2
			} else {
				out.AffCapped += n
			}
		case SInsertODKU:
			switch len(conf) {
			case 0:
				t.Rows = append(t.Rows, row)
				out.Inserted++
				out.AffMin++
				out.AffMax++
			case 1:
				old := t.Rows[conf[0]]
				nw := old.Copy()
				done := map[int]bool{}
				errc := map[string]bool{}
				for _, a := range st.ODKU {
					if e := a.E; (e.Op == ECol || e.Op == EColPlus || e.Op == EValuesPlusCol) && e.Col != a.Col && done[e.Col] {
						out.Unspecified = "assignment reads a column assigned earlier in the same statement"
						return
					}
					ev := a.E.eval(old, row)
					if ev.isOverflow() {
						out.Unspecified = "64-bit overflow in an expression"
						return
					}
					v, e := t.Cols[a.Col].Store(ev)
					if e != "" {
						if e == ErrRange && t.Cols[a.Col].Type.Kind == KInt && t.Excl.IntAssignClamp {
							out.Unspecified = "assignment of an out-of-range integer (excluded input class, see findings)"
							return
						}
						errc[e] = true
					}
					nw[a.Col] = v
					done[a.Col] = true
				}
				if len(errc) > 1 {
					out.Unspecified = "more than one unstorable value in a row (error precedence not fixed)"
					return
				}
				for e := range errc {
					out.Err = e
					return
				}
				if nw.Same(old) {
					t.tomb = append(t.tomb, old) // the engine deletes and re-adds the row even when nothing changes
					out.Unchanged++
					continue
				}
				tc.add(old)
				tc.add(nw)
				if c2 := t.Conflicts(nw, conf[0], kc); len(c2) > 0 {
					out.Err = ErrDup
					return
				}
				t.tomb = append(t.tomb, old)
				t.Rows[conf[0]] = nw
				out.Updated++
				out.AffMin += 2
				out.AffMax += 2
			default:
				out.Unspecified = "ON DUPLICATE KEY UPDATE with more than one conflicting row"
				return
			}
		}
	}
	switch {
	case st.Kind == SInsertIgnore && out.Skipped > 0:
		out.Class = "ignore-skipped"
	case st.Kind == SReplace && out.MultiDelete:
		out.Class = "replace-multi"
	case st.Kind == SReplace && out.Deleted > 0:
		out.Class = "replace-one"
	case st.Kind == SInsertODKU && out.Updated > 0:
		out.Class = "odku-updated"
	case st.Kind == SInsertODKU && out.Unchanged > 0:
		out.Class = "odku-unchanged"
	case out.Inserted == 0:
		out.Class = "no-rows"
	default:
		out.Class = "inserted"
	}
}

func (t *Table) selectRows(where *Pred, order []OrderKey, limit int) []int {
	var idx []int
	for i, r := range t.Rows {
		if where.eval(r) == triT {
			idx = append(idx, i)
		}
	}
	sortRows(t.Rows, idx, order)
	if limit >= 0 && len(idx) > limit {
		idx = idx[:limit]
	}
	return idx
}

func (t *Table) applyUpdate(st *Stmt, kc KeyCmp, out *Outcome, tc *touched) {
	total := len(st.Order) > 0 && t.IsTotalOrder(st.Order)
	if st.Limit >= 0 && !total {
		out.Unspecified = "LIMIT without a total ORDER BY"
		return
	}
	if len(st.Order) > 0 && !total {
		out.Unspecified = "ORDER BY that is not total (kept out to keep every ordered statement deterministic)"
		return
	}
	keyc := t.keyCols()
	touchesKey := false
	done := map[int]bool{}
	for _, a := range st.Set {
		if done[a.Col] {
			out.Unspecified = "column assigned twice"
			return
		}
		if e := a.E; (e.Op == ECol || e.Op == EColPlus) && e.Col != a.Col && done[e.Col] {
			out.Unspecified = "assignment reads a column assigned earlier in the same statement"
			return
		}
		done[a.Col] = true
		if keyc[a.Col] {
			touchesKey = true
		}
	}
	sel := t.selectRows(st.Where, st.Order, st.Limit)
	out.Matched = int64(len(sel))
	if touchesKey && !total && len(sel) > 1 {
		out.Unspecified = "key column updated on several rows without a total ORDER BY"
		return
	}
	out.TransientOrder = touchesKey && total && len(sel) > 1
	errs := map[string]bool{}
	for _, i := range sel {
		old := t.Rows[i]
		nw := old.Copy()
		rowErr := ""
		for _, a := range st.Set {
			ev := a.E.eval(old, nil)
			if ev.isOverflow() {
				out.Unspecified = "64-bit overflow in an expression"
				return
			}
			v, e := t.Cols[a.Col].Store(ev)
			if e != "" {
				if e == ErrRange && t.Cols[a.Col].Type.Kind == KInt && t.Excl.IntAssignClamp {
					out.Unspecified = "assignment of an out-of-range integer (excluded input class, see findings)"
					return
				}
				if rowErr != "" && rowErr != e {
					out.Unspecified = "more than one unstorable value in a row (error precedence not fixed)"
					return
				}
				rowErr = e
			}
			nw[a.Col] = v
		}
		if rowErr == "" && !nw.Same(old) {
			tc.add(old)
			tc.add(nw)
			if touchesKey && len(t.Conflicts(nw, i, kc)) > 0 {
				rowErr = ErrDup
			}
			t.tomb = append(t.tomb, old)
		}
		if rowErr != "" {
			errs[rowErr] = true
			if total || len(sel) == 1 {
				out.Err = rowErr
				return
			}
			continue
		}
		if nw.Same(old) {
			out.Unchanged++
			continue
		}
		t.Rows[i] = nw
		out.Updated++
	}
	if len(errs) > 0 {
		out.ErrAny = errs
		for _, e := range []string{ErrDup, ErrNotNull, ErrRange} {
			if errs[e] {
				out.Err = e
				break
			}
		}
		return
	}
	out.AffMin, out.AffMax = int64(out.Updated), int64(out.Updated)
	switch {
	case out.Matched == 0:
		out.Class = "update-none"
	case out.Updated == 0:
		out.Class = "update-unchanged"
	case out.TransientOrder:
		out.Class = "update-keys-ordered"
	case out.Unchanged > 0:
		out.Class = "update-some"
	default:
		out.Class = "update-all"
	}
}

func (t *Table) applyDelete(st *Stmt, out *Outcome, tc *touched) {
	total := len(st.Order) > 0 && t.IsTotalOrder(st.Order)
	if (st.Limit >= 0 || len(st.Order) > 0) && !total {
		out.Unspecified = "LIMIT / ORDER BY without a total order"
		return
	}
	sel := t.selectRows(st.Where, st.Order, st.Limit)
	del := map[int]bool{}
	for _, i := range sel {
		del[i] = true
		tc.add(t.Rows[i])
	}
	var keep []Row
	for i, r := range t.Rows {
		if !del[i] {
			keep = append(keep, r)
		}
	}
	t.Rows = keep
	out.Deleted = len(sel)
	out.AffMin, out.AffMax = int64(len(sel)), int64(len(sel))
	if len(sel) == 0 {
		out.Class = "delete-none"
	} else if st.Limit >= 0 {
		out.Class = "delete-limit"
	} else {
		out.Class = "delete-some"
	}
}
