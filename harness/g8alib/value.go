// Package g8alib is the reference table model (schema + rows as keyed map / multiset, PK / unique /
// NOT NULL semantics, MySQL statement semantics of the DML fragment, auto-increment) and the DML
// history generator and runner shared by the monitors C13, C14 and C20.
//
// The model is deliberately naive: rows are a slice, every key check is a nested loop with an
// explicit comparator per column (exact integers, exact decimals as scaled integers, strings compared
// bytewise / case+accent-folded over a closed alphabet / by their first n characters for prefix keys).
package g8alib

import (
	"fmt"
	"math/big"
	"strings"
)

// Kind of a value / column.
type Kind int

const (
	KInt Kind = iota
	KDec
	KStr
)

// Collations the model knows. Equality only is modelled for the folding collations (ordering of
// folded strings is never used by a generated statement).
const (
	CollBin       = "utf8mb4_0900_bin"
	CollAiCi      = "utf8mb4_0900_ai_ci"
	CollGeneralCi = "utf8mb4_general_ci"
	CollAsCs      = "utf8mb4_0900_as_cs"
)

// ColType is a column type of the generated domain.
type ColType struct {
	Kind  Kind
	SQL   string // as written in CREATE TABLE (without collation)
	Min   int64  // KInt
	Max   int64  // KInt
	Prec  int    // KDec: total digits
	Scale int    // KDec: fractional digits
	Len   int    // KStr: maximum length in characters
	Coll  string // KStr
}

func TInt(sql string, min, max int64) ColType {
	return ColType{Kind: KInt, SQL: sql, Min: min, Max: max}
}

var (
	TTiny   = TInt("TINYINT", -128, 127)
	TSmall  = TInt("SMALLINT", -32768, 32767)
	TInt32  = TInt("INT", -2147483648, 2147483647)
	TBigInt = TInt("BIGINT", -9223372036854775808, 9223372036854775807)
)

func TDec(prec, scale int) ColType {
	return ColType{Kind: KDec, SQL: fmt.Sprintf("DECIMAL(%d,%d)", prec, scale), Prec: prec, Scale: scale}
}

func TStr(n int, coll string) ColType {
	return ColType{Kind: KStr, SQL: fmt.Sprintf("VARCHAR(%d)", n), Len: n, Coll: coll}
}

// DDL renders the type with its collation.
func (t ColType) DDL() string {
	if t.Kind == KStr {
		return t.SQL + " COLLATE " + t.Coll
	}
	return t.SQL
}

// Val is one SQL value of the generated domain. Decimals are exact: I is the unscaled integer and
// Scale the number of fractional digits (value = I / 10^Scale). NegZero marks the literal -0.0.
type Val struct {
	Null    bool
	Kind    Kind
	I       int64
	Scale   int
	S       string
	NegZero bool
}

var Null = Val{Null: true}

func IntV(i int64) Val                   { return Val{Kind: KInt, I: i} }
func DecV(unscaled int64, scale int) Val { return Val{Kind: KDec, I: unscaled, Scale: scale} }
func StrV(s string) Val                  { return Val{Kind: KStr, S: s} }

var pow10 = [...]int64{1, 10, 100, 1000, 10000, 100000, 1000000, 10000000, 100000000, 1000000000, 10000000000, 100000000000, 1000000000000}

// Rescale brings a decimal to the given scale (only ever upwards in the generated domain).
func (v Val) Rescale(scale int) Val {
	if v.Null || v.Kind != KDec || v.Scale == scale {
		return v
	}
	if v.Scale < scale {
		return Val{Kind: KDec, I: v.I * pow10[scale-v.Scale], Scale: scale}
	}
	// downwards only when exact
	d := pow10[v.Scale-scale]
	if v.I%d != 0 {
		panic("g8alib: inexact rescale")
	}
	return Val{Kind: KDec, I: v.I / d, Scale: scale}
}

func decText(unscaled int64, scale int) string {
	neg := unscaled < 0
	u := new(big.Int).SetInt64(unscaled)
	u.Abs(u)
	s := u.String()
	if scale > 0 {
		for len(s) <= scale {
			s = "0" + s
		}
		s = s[:len(s)-scale] + "." + s[len(s)-scale:]
	}
	if neg {
		s = "-" + s
	}
	return s
}

// SQL renders the value as a literal.
func (v Val) SQL() string {
	if v.Null {
		return "NULL"
	}
	switch v.Kind {
	case KInt:
		return fmt.Sprintf("%d", v.I)
	case KDec:
		if v.NegZero {
			return "-" + decText(0, v.Scale)
		}
		return decText(v.I, v.Scale)
	}
	return "'" + strings.ReplaceAll(strings.ReplaceAll(v.S, `\`, `\\`), "'", "''") + "'"
}

// Canon renders the value exactly as core.Canon renders the engine's value of the same content.
func (v Val) Canon() string {
	if v.Null {
		return "NULL"
	}
	switch v.Kind {
	case KInt:
		return fmt.Sprintf("%d", v.I)
	case KDec:
		s := decText(v.I, v.Scale)
		if strings.Contains(s, ".") {
			s = strings.TrimRight(s, "0")
			s = strings.TrimSuffix(s, ".")
		}
		if s == "-0" || s == "" {
			s = "0"
		}
		return s
	}
	return "'" + v.S + "'"
}

// Same reports whether two stored values are identical (what "the row did not change" means).
func (v Val) Same(o Val) bool {
	if v.Null || o.Null {
		return v.Null && o.Null
	}
	switch v.Kind {
	case KInt:
		return v.I == o.I
	case KDec:
		s := v.Scale
		if o.Scale > s {
			s = o.Scale
		}
		return v.Rescale(s).I == o.Rescale(s).I
	}
	return v.S == o.S
}

// Row is one table row.
type Row []Val

func (r Row) Copy() Row { return append(Row(nil), r...) }

func (r Row) Canon() string {
	parts := make([]string, len(r))
	for i, v := range r {
		parts[i] = v.Canon()
	}
	return strings.Join(parts, "|")
}

func (r Row) Same(o Row) bool {
	for i := range r {
		if !r[i].Same(o[i]) {
			return false
		}
	}
	return true
}

// ---- string comparison under the modelled collations ----

// foldMap is the closed alphabet's case+accent folding (valid for utf8mb4_0900_ai_ci and
// utf8mb4_general_ci on these characters). Every character outside it folds to itself.
var foldMap = map[rune]rune{
	'A': 'a', 'á': 'a', 'Á': 'a', 'ä': 'a', 'Ä': 'a',
	'B': 'b', 'C': 'c',
	'E': 'e', 'é': 'e', 'É': 'e',
	'X': 'x',
}

// Fold maps a string to its comparison key under a case- and accent-insensitive collation.
func Fold(s string) string {
	var b strings.Builder
	for _, c := range s {
		if f, ok := foldMap[c]; ok {
			c = f
		}
		b.WriteRune(c)
	}
	return b.String()
}

// KeyCmp says how key equality is decided; the right comparator and the deliberately wrong ones used
// to recognise known defects are all instances of it.
type KeyCmp struct {
	// IgnoreCollation compares strings bytewise whatever the column collation (defect F3).
	IgnoreCollation bool
	// PrefixInBytes cuts prefix keys after n bytes instead of n characters (defect: byte prefix).
	PrefixInBytes bool
	// ShadowByDeletes skips the check of a unique (non-primary) key whenever a row deleted or updated
	// earlier in the same statement carries the same key value (defect: pending delete hides the check).
	ShadowByDeletes bool
}

// RightCmp is the comparison the property prescribes.
var RightCmp = KeyCmp{}

func prefixChars(s string, n int) string {
	k := 0
	for i := range s {
		if k == n {
			return s[:i]
		}
		k++
	}
	return s
}

func prefixBytes(s string, n int) string {
	if n > len(s) {
		n = len(s)
	}
	return s[:n]
}

// StrKeyEq compares two strings as key parts under a collation and optional prefix length.
func (kc KeyCmp) StrKeyEq(a, b string, coll string, prefix int) bool {
	if prefix > 0 {
		if kc.PrefixInBytes {
			a, b = prefixBytes(a, prefix), prefixBytes(b, prefix)
		} else {
			a, b = prefixChars(a, prefix), prefixChars(b, prefix)
		}
	}
	if !kc.IgnoreCollation && (coll == CollAiCi || coll == CollGeneralCi) {
		return Fold(a) == Fold(b)
	}
	return a == b
}

// ---- conversion of a proposed value to a column (strict mode) ----

// ErrClass values of the model.
const (
	ErrDup     = "dup"
	ErrNotNull = "notnull"
	ErrRange   = "range"
)

// Column of a model table.
type Column struct {
	Name    string
	Type    ColType
	NotNull bool
	AutoInc bool
}

// Store converts a proposed value for the column; the error class is "" when the value is storable
// exactly as given (the generated domain never needs rounding or truncation).
func (c *Column) Store(v Val) (Val, string) {
	if v.Null {
		if c.NotNull {
			return v, ErrNotNull
		}
		return v, ""
	}
	switch c.Type.Kind {
	case KInt:
		if v.Kind != KInt {
			panic("g8alib: kind mismatch for " + c.Name)
		}
		if v.I < c.Type.Min || v.I > c.Type.Max {
			return v, ErrRange
		}
		return v, ""
	case KDec:
		if v.Kind == KInt {
			v = DecV(v.I, 0)
		}
		if v.Kind != KDec {
			panic("g8alib: kind mismatch for " + c.Name)
		}
		if v.Scale > c.Type.Scale {
			panic("g8alib: decimal literal with more digits than the column scale")
		}
		w := v.Rescale(c.Type.Scale)
		lim := pow10[c.Type.Prec]
		if w.I >= lim || w.I <= -lim {
			return v, ErrRange
		}
		return w, ""
	default:
		if v.Kind != KStr {
			panic("g8alib: kind mismatch for " + c.Name)
		}
		if len([]rune(v.S)) > c.Type.Len {
			return v, ErrRange
		}
		return v, ""
	}
}
