package g8blib

import (
	"bufio"
	"encoding/json"
	"fmt"
	"os"
	"os/exec"
	"strings"
	"sync"

	"verif/harness/core"
)

// Sink is what a case reports to. In the supervising process it is the *core.Run itself; in a worker
// child process it is a Remote that forwards every call as one JSON line on stdout. Worker processes
// exist because the verifhook fault state is process-global: a process runs its cases one at a time.
type Sink interface {
	Eval(n int)
	Distinct(key string)
	Sample(v any)
	Count(name string, n int64)
	Inconclusive(reason string)
	Violation(sig string, witness any)
}

type msg struct {
	Op   string          `json:"op"`
	N    int64           `json:"n,omitempty"`
	Key  string          `json:"key,omitempty"`
	V    json.RawMessage `json:"v,omitempty"`
	Case int             `json:"case,omitempty"`
}

// Remote is the child-side Sink.
type Remote struct {
	mu  sync.Mutex
	out *bufio.Writer
}

// NewRemote writes to stdout.
func NewRemote() *Remote { return &Remote{out: bufio.NewWriterSize(os.Stdout, 1<<16)} }

func (r *Remote) send(m msg) {
	b, _ := json.Marshal(m)
	r.mu.Lock()
	r.out.Write(b)
	r.out.WriteByte('\n')
	r.out.Flush()
	r.mu.Unlock()
}

func raw(v any) json.RawMessage {
	b, err := json.Marshal(v)
	if err != nil {
		b, _ = json.Marshal(fmt.Sprint(v))
	}
	return b
}

func (r *Remote) Eval(n int)                   { r.send(msg{Op: "eval", N: int64(n)}) }
func (r *Remote) Distinct(key string)          { r.send(msg{Op: "distinct", Key: key}) }
func (r *Remote) Sample(v any)                 { r.send(msg{Op: "sample", V: raw(v)}) }
func (r *Remote) Count(name string, n int64)   { r.send(msg{Op: "count", Key: name, N: n}) }
func (r *Remote) Inconclusive(reason string)   { r.send(msg{Op: "inconclusive", Key: reason}) }
func (r *Remote) Violation(sig string, w any)  { r.send(msg{Op: "violation", Key: sig, V: raw(w)}) }
func (r *Remote) Begin(i int)                  { r.send(msg{Op: "begin", Case: i}) }
func (r *Remote) Done()                        { r.send(msg{Op: "done"}) }

// ChildSpec returns (k, w, true) when this process is worker k of w.
func ChildSpec() (int, int, bool) {
	s := os.Getenv("G8B_CHILD")
	if s == "" {
		return 0, 0, false
	}
	var k, w int
	if _, err := fmt.Sscanf(s, "%d/%d", &k, &w); err != nil || w <= 0 {
		return 0, 0, false
	}
	return k, w, true
}

// RunChild runs, in a worker process, the cases i ≡ k (mod w) of 0..n-1 one after another. A panic
// escaping a case becomes a violation like in core.Run.Parallel.
func RunChild(n int, fn func(i int, out Sink)) {
	k, w, _ := ChildSpec()
	rem := NewRemote()
	for i := k; i < n; i += w {
		rem.Begin(i)
		func() {
			defer func() {
				if rec := recover(); rec != nil {
					p := core.CapturePanic(rec)
					rem.Violation(p.Sig(), map[string]any{"case": i, "panic": p.Value, "stack": core.Clip(p.Stack, 4000)})
				}
			}()
			fn(i, rem)
		}()
	}
	rem.Done()
}

// Supervise starts w worker processes of this binary (same arguments, G8B_CHILD=k/w) and replays
// what they report into the run. A worker that dies without its final "done" line is a violation
// attributed to the case it had open.
func Supervise(r *core.Run, w int, label string) {
	var wg sync.WaitGroup
	for k := 0; k < w; k++ {
		wg.Add(1)
		go func(k int) {
			defer wg.Done()
			cmd := exec.Command(os.Args[0], os.Args[1:]...)
			cmd.Env = append(os.Environ(), fmt.Sprintf("G8B_CHILD=%d/%d", k, w))
			var errBuf strings.Builder
			cmd.Stderr = &limitedWriter{b: &errBuf, max: 8000}
			stdout, err := cmd.StdoutPipe()
			if err != nil {
				r.Violation("worker-start-failed", map[string]any{"error": err.Error()})
				return
			}
			if err := cmd.Start(); err != nil {
				r.Violation("worker-start-failed", map[string]any{"error": err.Error()})
				return
			}
			sc := bufio.NewScanner(stdout)
			sc.Buffer(make([]byte, 1<<20), 64<<20)
			open, done := -1, false
			for sc.Scan() {
				var m msg
				if json.Unmarshal(sc.Bytes(), &m) != nil {
					continue
				}
				switch m.Op {
				case "begin":
					open = m.Case
				case "done":
					done = true
				case "eval":
					r.Eval(int(m.N))
				case "distinct":
					r.Distinct(m.Key)
				case "sample":
					var v any
					json.Unmarshal(m.V, &v)
					r.Sample(v)
				case "count":
					r.Count(m.Key, m.N)
				case "inconclusive":
					r.Inconclusive(m.Key)
				case "violation":
					var v any
					json.Unmarshal(m.V, &v)
					r.Violation(m.Key, v)
				}
			}
			werr := cmd.Wait()
			if !done {
				r.Violation("worker-process-died", map[string]any{"label": label, "worker": k, "open_case": open, "exit": fmt.Sprint(werr), "stderr": errBuf.String()})
			}
		}(k)
	}
	wg.Wait()
}

type limitedWriter struct {
	b   *strings.Builder
	max int
}

func (l *limitedWriter) Write(p []byte) (int, error) {
	if l.b.Len() < l.max {
		room := l.max - l.b.Len()
		if room > len(p) {
			room = len(p)
		}
		l.b.Write(p[:room])
	}
	return len(p), nil
}
