package g8blib

import (
	"fmt"
	"math/rand"
	"sort"
	"strings"

	"verif/harness/core"
)

// DB is a set of table descriptions with a fixed probe set per table: the unit a fingerprint is
// taken of.
type DB struct {
	Tables []*Table
	Probes map[string][]Probe
}

// NewDB fixes the probe sets: built from every domain value of every column plus the values seen in
// extra (canonical rows per table, may be nil), so that the same reads are made before and after a
// statement.
func NewDB(tables []*Table, rnd *rand.Rand, lite bool) *DB {
	db := &DB{Tables: tables, Probes: map[string][]Probe{}}
	for _, t := range tables {
		se := NewSeen()
		se.AddDomain(t)
		var all []Probe
		if lite {
			all = ProbesLite(t, se, rnd)
		} else {
			all = Probes(t, se, rnd)
		}
		var ps []Probe
		for _, p := range all {
			if p.Limit > 0 {
				continue // LIMIT under ties is not a function of the state
			}
			ps = append(ps, p)
		}
		db.Probes[t.Name] = ps
	}
	return db
}

// FP is a database fingerprint: per table the sorted multiset of rows, and per probe the sorted result
// of the index-driven read (for ordered scans the key sequence as well).
type FP struct {
	Rows  map[string][]string            // table -> sorted canonical rows
	Reads map[string]map[string][]string // table -> probe query -> result
	Err   string
}

// Fingerprint reads the whole database state through scans and through every index.
func (db *DB) Fingerprint(s *core.Sess) *FP {
	fp := &FP{Rows: map[string][]string{}, Reads: map[string]map[string][]string{}}
	for _, t := range db.Tables {
		cols := t.ColNames()
		res := s.Exec("SELECT " + strings.Join(cols, ", ") + " FROM " + t.Name)
		if res.Failed() {
			fp.Err = fmt.Sprintf("scan of %s: %s %v", t.Name, res.ErrClass(), res.Err)
			return fp
		}
		fp.Rows[t.Name] = core.SortedRows(res.Rows)
		reads := map[string][]string{}
		for _, p := range db.Probes[t.Name] {
			q := p.Query(t.Name, cols)
			r := s.Exec(q)
			if r.Failed() {
				reads[q] = []string{"ERR " + r.ErrClass()}
				continue
			}
			out := core.SortedRows(r.Rows)
			if len(p.Order) > 0 {
				// key sequence in result order
				pos := map[string]int{}
				for k, c := range cols {
					pos[c] = k
				}
				var keys []string
				for _, row := range r.Rows {
					var key []string
					for _, c := range p.Order {
						key = append(key, core.Canon(row[pos[c]]))
					}
					keys = append(keys, strings.Join(key, ","))
				}
				out = append(out, "keys: "+strings.Join(keys, " "))
			}
			reads[q] = out
		}
		fp.Reads[t.Name] = reads
	}
	return fp
}

// FPDiff says where two fingerprints differ.
type FPDiff struct {
	RowTables   []string            `json:"tables_whose_rows_differ"`
	IndexTables []string            `json:"tables_whose_index_reads_differ_only"`
	Details     map[string][]string `json:"details"`
	// per table: rows only in a / only in b
	OnlyA map[string][]string `json:"only_before"`
	OnlyB map[string][]string `json:"only_after"`
}

// Same reports whether nothing differs.
func (d *FPDiff) Same() bool { return len(d.RowTables) == 0 && len(d.IndexTables) == 0 }

// Class is a compact description for signatures: rows(t1,t2) / index-only(t).
func (d *FPDiff) Class() string {
	var parts []string
	if len(d.RowTables) > 0 {
		parts = append(parts, "rows("+strings.Join(d.RowTables, ",")+")")
	}
	if len(d.IndexTables) > 0 {
		parts = append(parts, "index-only("+strings.Join(d.IndexTables, ",")+")")
	}
	return strings.Join(parts, "+")
}

func multisetDiff(a, b []string) (onlyA, onlyB []string) {
	cnt := map[string]int{}
	for _, x := range a {
		cnt[x]++
	}
	for _, x := range b {
		if cnt[x] > 0 {
			cnt[x]--
		} else {
			onlyB = append(onlyB, x)
		}
	}
	for _, x := range a {
		if cnt[x] > 0 {
			cnt[x]--
			onlyA = append(onlyA, x)
		}
	}
	return
}

// Diff compares a (before) with b (after).
func (a *FP) Diff(b *FP) *FPDiff {
	d := &FPDiff{Details: map[string][]string{}, OnlyA: map[string][]string{}, OnlyB: map[string][]string{}}
	var names []string
	for n := range a.Rows {
		names = append(names, n)
	}
	sort.Strings(names)
	for _, n := range names {
		if !core.SameStrings(a.Rows[n], b.Rows[n]) {
			d.RowTables = append(d.RowTables, n)
			oa, ob := multisetDiff(a.Rows[n], b.Rows[n])
			d.OnlyA[n], d.OnlyB[n] = core.ClipStrings(oa, 20), core.ClipStrings(ob, 20)
			continue
		}
		var qs []string
		for q := range a.Reads[n] {
			qs = append(qs, q)
		}
		sort.Strings(qs)
		for _, q := range qs {
			if !core.SameStrings(a.Reads[n][q], b.Reads[n][q]) {
				if len(d.Details[n]) < 4 {
					d.Details[n] = append(d.Details[n], fmt.Sprintf("%s: before %v after %v", q, core.ClipStrings(a.Reads[n][q], 12), core.ClipStrings(b.Reads[n][q], 12)))
				}
			}
		}
		if len(d.Details[n]) > 0 {
			d.IndexTables = append(d.IndexTables, n)
		}
	}
	return d
}

// SelfConsistent checks, on the current state, every probe's index-driven read against the
// scan-driven evaluation; it returns the diffs (nil when consistent).
func (db *DB) SelfConsistent(s *core.Sess) []*Diff {
	var out []*Diff
	for _, t := range db.Tables {
		ps := db.Probes[t.Name]
		sc := ScanEval(s, t.Name, t.ColNames(), ps)
		if sc.Err != "" {
			out = append(out, &Diff{Why: "scan failed: " + sc.Err})
			continue
		}
		for i, p := range ps {
			if d, _ := ReadProbe(s, t, t.Name, sc, i, p); d != nil {
				out = append(out, d)
			}
		}
	}
	return out
}
