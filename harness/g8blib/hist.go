package g8blib

import (
	"fmt"
	"math/rand"
	"sort"
	"strings"

	"verif/harness/core"
)

// Step is one statement of a history. SQL contains the placeholder %T for the table name, so that
// the same statement can be given to the indexed table and to its index-free twin.
type Step struct {
	Kind    string `json:"kind"`
	SQL     string `json:"sql"`
	Twin    bool   `json:"twin"`    // also run on the twin (index DDL is not)
	Session bool   `json:"session"` // BEGIN/COMMIT/ROLLBACK: run once, not per table
	DDL     bool   `json:"ddl"`
}

// For renders the statement for a table name.
func (st Step) For(tbl string) string { return strings.ReplaceAll(st.SQL, "%T", tbl) }

// Hist generates a DML/DDL/transaction history for one StdTable. The generator keeps only what it
// needs to aim statements (ids in use, whether a transaction is open, which palette indexes exist);
// it is not an oracle.
type Hist struct {
	T       *Table
	Rnd     *rand.Rand
	IDs     []int // ids currently in the table (refreshed by the monitor from its scan)
	used    map[int]bool
	InTxn   bool
	UseTxn  bool // histories without transactions never see BEGIN
	HasX    bool // extra column x present
	WideA   bool // a is BIGINT
	Keyless bool
	PKMode  string
}

// NewHist makes a generator for table t.
func NewHist(t *Table, pkMode string, rnd *rand.Rand, useTxn bool) *Hist {
	return &Hist{T: t, Rnd: rnd, used: map[int]bool{}, UseTxn: useTxn, Keyless: pkMode == "none", PKMode: pkMode}
}

func (h *Hist) freshID() int {
	lim := 30 + len(h.used)
	for k := 0; k < 50; k++ {
		id := 1 + h.Rnd.Intn(lim)
		if !h.used[id] {
			h.used[id] = true
			return id
		}
	}
	id := lim + 1 + h.Rnd.Intn(1000)
	h.used[id] = true
	return id
}

func (h *Hist) someID() int {
	if len(h.IDs) == 0 {
		return 1 + h.Rnd.Intn(30)
	}
	return h.IDs[h.Rnd.Intn(len(h.IDs))]
}

func (h *Hist) val(col string) string {
	c := h.T.Col(col)
	if !c.NotNull && h.Rnd.Intn(7) == 0 {
		return "NULL"
	}
	return c.Lit(c.Dom[h.Rnd.Intn(len(c.Dom))])
}

func (h *Hist) nonNull(col string) string {
	c := h.T.Col(col)
	return c.Lit(c.Dom[h.Rnd.Intn(len(c.Dom))])
}

func (h *Hist) row(id int) string {
	return fmt.Sprintf("(%d, %s, %s, %s, %s)", id, h.val("a"), h.val("b"), h.val("c"), h.val("s"))
}

const insCols = "(id, a, b, c, s)"

// pred renders a predicate over an indexed (or sometimes the plain) column, so that the source of an
// UPDATE/DELETE is often an index scan.
func (h *Hist) pred() string {
	switch h.Rnd.Intn(9) {
	case 0:
		return "a = " + h.nonNull("a")
	case 1:
		return "b < " + h.nonNull("b")
	case 2:
		v, w := h.nonNull("b"), h.nonNull("b")
		if CmpVal(false, v, w) > 0 {
			v, w = w, v
		}
		return fmt.Sprintf("b BETWEEN %s AND %s", v, w)
	case 3:
		return "s LIKE '" + []string{"a", "ab", "abc", "b"}[h.Rnd.Intn(4)] + "%'"
	case 4:
		return "a IS NULL"
	case 5:
		return "s = " + h.nonNull("s")
	case 6:
		return "c = " + h.nonNull("c")
	case 7:
		return fmt.Sprintf("a = %s AND b >= %s", h.nonNull("a"), h.nonNull("b"))
	}
	return "b >= " + h.nonNull("b")
}

func (h *Hist) idPos(which string) int {
	ids := append([]int{}, h.IDs...)
	sort.Ints(ids)
	if len(ids) == 0 {
		return h.someID()
	}
	switch which {
	case "first":
		return ids[0]
	case "last":
		return ids[len(ids)-1]
	case "mid":
		return ids[len(ids)/2]
	}
	return ids[h.Rnd.Intn(len(ids))]
}

// Next draws the next step.
func (h *Hist) Next() Step {
	r := h.Rnd
	if h.InTxn && r.Intn(6) == 0 {
		h.InTxn = false
		if r.Intn(2) == 0 {
			return Step{Kind: "commit", SQL: "COMMIT", Session: true}
		}
		return Step{Kind: "rollback", SQL: "ROLLBACK", Session: true}
	}
	if h.UseTxn && !h.InTxn && r.Intn(9) == 0 {
		h.InTxn = true
		if r.Intn(3) == 0 {
			return Step{Kind: "begin", SQL: "START TRANSACTION", Session: true}
		}
		return Step{Kind: "begin", SQL: "BEGIN", Session: true}
	}
	uniq := h.T.HasUniqueSecondary()
	n := len(h.IDs)
	w := r.Intn(100)
	if n < 4 && w >= 30 {
		w = r.Intn(30) // keep the table populated
	}
	if n > 18 && w < 30 {
		w = 55 + r.Intn(25) // … and small
	}
	switch {
	case w < 12:
		return Step{Kind: "insert1", SQL: "INSERT INTO %T " + insCols + " VALUES " + h.row(h.freshID()), Twin: true}
	case w < 22:
		k := 2 + r.Intn(4)
		rows := make([]string, k)
		bad := -1
		if r.Intn(4) == 0 {
			bad = r.Intn(k)
		}
		for i := range rows {
			id := h.freshID()
			if i == bad {
				id = h.someID()
			}
			rows[i] = h.row(id)
		}
		kind := "insertN"
		if bad >= 0 {
			kind = "insertN-collide"
		}
		return Step{Kind: kind, SQL: "INSERT INTO %T " + insCols + " VALUES " + strings.Join(rows, ", "), Twin: true}
	case w < 30:
		// statements whose effect depends on which keys are unique: only while the indexed table has no
		// unique secondary index (then the twin, which shares the primary key, has the same semantics)
		id := h.freshID()
		if r.Intn(2) == 0 {
			id = h.someID()
		}
		if uniq {
			return Step{Kind: "insert1", SQL: "INSERT INTO %T " + insCols + " VALUES " + h.row(h.freshID()), Twin: true}
		}
		switch r.Intn(4) {
		case 0:
			return Step{Kind: "insert-ignore", SQL: "INSERT IGNORE INTO %T " + insCols + " VALUES " + h.row(id) + ", " + h.row(h.freshID()), Twin: true}
		case 1:
			return Step{Kind: "replace", SQL: "REPLACE INTO %T " + insCols + " VALUES " + h.row(id), Twin: true}
		case 2:
			return Step{Kind: "replace-multi", SQL: "REPLACE INTO %T " + insCols + " VALUES " + h.row(id) + ", " + h.row(h.someID()), Twin: true}
		}
		return Step{Kind: "odku", SQL: "INSERT INTO %T " + insCols + " VALUES " + h.row(id) + " ON DUPLICATE KEY UPDATE b = VALUES(b), c = c + 1", Twin: true}
	case w < 42:
		col := []string{"a", "b", "c", "s", "b", "a"}[r.Intn(6)]
		set := col + " = " + h.val(col)
		if r.Intn(3) == 0 {
			c2 := []string{"a", "b", "s"}[r.Intn(3)]
			if c2 != col {
				set += ", " + c2 + " = " + h.val(c2)
			}
		}
		return Step{Kind: "update-id", SQL: fmt.Sprintf("UPDATE %%T SET %s WHERE id = %d", set, h.someID()), Twin: true}
	case w < 52:
		col := []string{"a", "b", "c", "s"}[r.Intn(4)]
		return Step{Kind: "update-pred", SQL: fmt.Sprintf("UPDATE %%T SET %s = %s WHERE %s", col, h.val(col), h.pred()), Twin: true}
	case w < 57:
		target := h.freshID()
		if r.Intn(4) == 0 {
			target = h.someID()
		}
		return Step{Kind: "update-pk", SQL: fmt.Sprintf("UPDATE %%T SET id = %d WHERE id = %d", target, h.someID()), Twin: true}
	case w < 61:
		col := []string{"a", "b", "c"}[r.Intn(3)]
		return Step{Kind: "update-expr", SQL: fmt.Sprintf("UPDATE %%T SET %s = %s + 1 WHERE %s", col, col, h.pred()), Twin: true}
	case w < 73:
		which := []string{"first", "mid", "last", "any"}[r.Intn(4)]
		return Step{Kind: "delete-" + which, SQL: fmt.Sprintf("DELETE FROM %%T WHERE id = %d", h.idPos(which)), Twin: true}
	case w < 79:
		return Step{Kind: "delete-pred", SQL: "DELETE FROM %T WHERE " + h.pred(), Twin: true}
	case w < 81:
		if h.PKMode == "id" {
			dir := []string{"", " DESC"}[r.Intn(2)]
			return Step{Kind: "delete-limit", SQL: fmt.Sprintf("DELETE FROM %%T ORDER BY id%s LIMIT %d", dir, 1+r.Intn(3)), Twin: true}
		}
		return Step{Kind: "delete-in", SQL: fmt.Sprintf("DELETE FROM %%T WHERE id IN (%d, %d, %d)", h.someID(), h.someID(), h.someID()), Twin: true}
	case w < 82:
		if r.Intn(2) == 0 {
			return Step{Kind: "delete-all", SQL: "DELETE FROM %T", Twin: true}
		}
		return Step{Kind: "truncate", SQL: "TRUNCATE TABLE %T", Twin: true, DDL: true}
	case w < 85:
		return Step{Kind: "insert-select", SQL: fmt.Sprintf("INSERT INTO %%T %s SELECT id + %d, a, b, c, s FROM %%T WHERE %s", insCols, 200+r.Intn(300), h.pred()), Twin: true}
	case w < 90:
		// create an index of the palette that does not exist yet (on the populated table)
		var cand []Index
		for _, ix := range IndexPalette {
			have := false
			for _, e := range h.T.Indexes {
				if e.Name == ix.Name {
					have = true
				}
			}
			if !have {
				cand = append(cand, ix)
			}
		}
		if len(cand) == 0 || len(h.T.Indexes) >= 4 {
			break
		}
		ix := cand[r.Intn(len(cand))]
		h.InTxn = false
		return Step{Kind: "create-index-" + ix.Shape(), SQL: ix.CreateSQL("%T"), DDL: true}
	case w < 94:
		if len(h.T.Indexes) == 0 {
			break
		}
		ix := h.T.Indexes[r.Intn(len(h.T.Indexes))]
		h.InTxn = false
		return Step{Kind: "drop-index", SQL: "DROP INDEX " + ix.Name + " ON %T", DDL: true}
	default:
		h.InTxn = false
		switch r.Intn(4) {
		case 3:
			// a pure reorder: same columns, other ordinals (every index expression has to follow its column)
			pos := []string{"FIRST", "AFTER id", "AFTER a", "AFTER b"}[r.Intn(4)]
			return Step{Kind: "alter-reorder-column", SQL: "ALTER TABLE %T MODIFY COLUMN c " + []string{"BIGINT", "INT"}[r.Intn(2)] + " " + pos, Twin: true, DDL: true}
		case 0:
			if h.HasX {
				return Step{Kind: "alter-drop-column", SQL: "ALTER TABLE %T DROP COLUMN x", Twin: true, DDL: true}
			}
			return Step{Kind: "alter-add-column", SQL: "ALTER TABLE %T ADD COLUMN x INT DEFAULT 7", Twin: true, DDL: true}
		case 1:
			typ := "BIGINT"
			if h.WideA {
				typ = "INT"
			}
			nn := ""
			if h.T.Col("a").NotNull {
				nn = " NOT NULL"
			}
			return Step{Kind: "alter-modify-indexed", SQL: "ALTER TABLE %T MODIFY COLUMN a " + typ + nn, Twin: true, DDL: true}
		}
		return Step{Kind: "alter-modify-plain", SQL: "ALTER TABLE %T MODIFY COLUMN c " + []string{"BIGINT", "INT"}[r.Intn(2)], Twin: true, DDL: true}
	}
	return Step{Kind: "insert1", SQL: "INSERT INTO %T " + insCols + " VALUES " + h.row(h.freshID()), Twin: true}
}

// Sync re-reads the column list and the set of secondary indexes of the indexed table from the
// engine, so that the probe generator aims at what exists (DDL inside a transaction, failed DDL and
// rollbacks make the generator's own bookkeeping unreliable).
func (h *Hist) Sync(s *core.Sess) error {
	res := s.Exec("SHOW INDEXES FROM " + h.T.Name)
	if res.Failed() {
		return fmt.Errorf("SHOW INDEXES: %v", res.Err)
	}
	have := map[string]bool{}
	for _, row := range res.Rows {
		if len(row) > 2 {
			have[strings.Trim(core.Canon(row[2]), "'")] = true
		}
	}
	var idx []Index
	for _, ix := range IndexPalette {
		if have[ix.Name] {
			idx = append(idx, ix)
		}
	}
	h.T.Indexes = idx
	res = s.Exec("SELECT * FROM " + h.T.Name + " LIMIT 0")
	if res.Failed() {
		return fmt.Errorf("SELECT *: %v", res.Err)
	}
	h.HasX = false
	for _, c := range res.Schema {
		if strings.EqualFold(c.Name, "x") {
			h.HasX = true
		}
		if strings.EqualFold(c.Name, "a") {
			h.WideA = strings.Contains(strings.ToLower(c.Type.String()), "bigint")
		}
	}
	var cols []Col
	for _, c := range h.T.Cols {
		if c.Name != "x" {
			cols = append(cols, c)
		}
	}
	if h.HasX {
		cols = append(cols, Col{Name: "x", Type: "INT", Dom: []string{"7"}})
	}
	h.T.Cols = cols
	return nil
}
