package g8blib

import (
	"fmt"
	"math/rand"
	"sort"
	"strings"

	"verif/harness/core"
)

// Probe is one read aimed at one secondary index: a predicate over the index's leading columns, and
// how it is read (plain, ordered by the index key forwards/backwards, with LIMIT, or COUNT(*)).
type Probe struct {
	Index string   `json:"index"`
	Shape string   `json:"shape"`
	Kind  string   `json:"kind"`
	Where string   `json:"where"`           // "" = no predicate (pure ordered scan)
	Order []string `json:"order,omitempty"` // key columns of an ordered scan
	Desc  bool     `json:"desc,omitempty"`
	Limit int      `json:"limit,omitempty"`
	Count bool     `json:"count,omitempty"`
}

// Pred is the predicate text used in the projection of the scan-driven evaluation.
func (p Probe) Pred() string {
	if p.Where == "" {
		return "1 = 1"
	}
	return p.Where
}

// Query renders the index-driven read on table tbl selecting cols.
func (p Probe) Query(tbl string, cols []string) string {
	var b strings.Builder
	if p.Count {
		b.WriteString("SELECT COUNT(*) FROM " + tbl)
	} else {
		b.WriteString("SELECT " + strings.Join(cols, ", ") + " FROM " + tbl)
	}
	if p.Where != "" {
		b.WriteString(" WHERE " + p.Where)
	}
	if len(p.Order) > 0 {
		b.WriteString(" ORDER BY ")
		for i, c := range p.Order {
			if i > 0 {
				b.WriteString(", ")
			}
			b.WriteString(c)
			if p.Desc {
				b.WriteString(" DESC")
			}
		}
	}
	if p.Limit > 0 {
		fmt.Fprintf(&b, " LIMIT %d", p.Limit)
	}
	return b.String()
}

// Seen accumulates the values ever observed in each column and the key tuples ever observed for
// each index column list ("every key value ever written").
type Seen struct {
	Vals   map[string]map[string]struct{}
	Tuples map[string]map[string][]string // joined column list -> joined tuple -> tuple
}

// NewSeen makes an empty accumulator.
func NewSeen() *Seen {
	return &Seen{Vals: map[string]map[string]struct{}{}, Tuples: map[string]map[string][]string{}}
}

// AddRows records the rows of one scan (canonical values per column, in cols order).
func (se *Seen) AddRows(t *Table, cols []string, rows [][]string) {
	pos := map[string]int{}
	for i, c := range cols {
		pos[c] = i
		if se.Vals[c] == nil {
			se.Vals[c] = map[string]struct{}{}
		}
	}
	for _, r := range rows {
		for i, c := range cols {
			se.Vals[c][r[i]] = struct{}{}
		}
	}
	for _, ix := range append(append([]Index{}, IndexPalette...), t.Indexes...) {
		if len(ix.Cols) < 2 {
			continue
		}
		key := strings.Join(ix.Cols, ",")
		ok := true
		for _, c := range ix.Cols {
			if _, has := pos[c]; !has {
				ok = false
			}
		}
		if !ok {
			continue
		}
		if se.Tuples[key] == nil {
			se.Tuples[key] = map[string][]string{}
		}
		for _, r := range rows {
			tup := make([]string, len(ix.Cols))
			for i, c := range ix.Cols {
				tup[i] = r[pos[c]]
			}
			se.Tuples[key][strings.Join(tup, "\x00")] = tup
		}
	}
}

// AddDomain records every domain value of every column (used where the probe set must be fixed before
// the statements run: fingerprints).
func (se *Seen) AddDomain(t *Table) {
	for _, c := range t.Cols {
		if se.Vals[c.Name] == nil {
			se.Vals[c.Name] = map[string]struct{}{}
		}
		for _, v := range c.Dom {
			se.Vals[c.Name][c.Lit(v)] = struct{}{}
		}
	}
}

func (se *Seen) sorted(c *Col) []string {
	var vs []string
	for v := range se.Vals[c.Name] {
		if v != "NULL" {
			vs = append(vs, v)
		}
	}
	SortVals(c.Str, vs)
	return vs
}

func eqOrNull(col, v string) string {
	if v == "NULL" {
		return col + " IS NULL"
	}
	return col + " = " + v
}

// Probes builds the probe set for every secondary index of t from the values seen so far: point
// lookups for every value and NULL, ranges between adjacent values, open ranges, BETWEEN/IN/<>,
// prefix lookups and full-key lookups on multi-column indexes, LIKE on string keys, ordered scans in
// both directions (with and without LIMIT), and COUNT(*). rnd picks among the sampled forms only;
// the point lookups are complete.
func Probes(t *Table, se *Seen, rnd *rand.Rand) []Probe {
	var out []Probe
	for _, ix := range t.Indexes {
		out = append(out, probesFor(t, ix, se, rnd)...)
	}
	return out
}

// ProbesLite is the reduced probe set used inside fingerprints, where the same reads are repeated
// many times per case: every point lookup and NULL, the ordered scans, two open ranges, one IN, and
// the counts — no adjacent-range family.
func ProbesLite(t *Table, se *Seen, rnd *rand.Rand) []Probe {
	var out []Probe
	for _, p := range Probes(t, se, rnd) {
		switch {
		case p.Limit > 0, strings.HasPrefix(p.Kind, "adjacent"), p.Kind == "between", p.Kind == "ne", p.Kind == "notnull",
			p.Kind == "open<=", p.Kind == "open>", strings.HasSuffix(p.Kind, "-range") && strings.HasPrefix(p.Kind, "ordered"),
			p.Kind == "nullsafe-eq", p.Kind == "count-range", p.Kind == "like-prefix":
			continue
		}
		out = append(out, p)
	}
	return out
}

func probesFor(t *Table, ix Index, se *Seen, rnd *rand.Rand) []Probe {
	var out []Probe
	shape := ix.Shape()
	add := func(kind, where string) {
		out = append(out, Probe{Index: ix.Name, Shape: shape, Kind: kind, Where: where})
	}
	c0 := t.Col(ix.Cols[0])
	if c0 == nil {
		return nil
	}
	x := c0.Name
	vs := se.sorted(c0)
	pick := func() string {
		if len(vs) == 0 {
			if c0.Str {
				return "'a'"
			}
			return "0"
		}
		return vs[rnd.Intn(len(vs))]
	}
	lead := "point"
	if len(ix.Cols) > 1 {
		lead = "prefix-eq"
	}
	for _, v := range vs {
		add(lead, x+" = "+v)
	}
	add("null", x+" IS NULL")
	add("nullsafe-eq", x+" <=> "+pick())
	for i := 0; i+1 < len(vs); i++ {
		if rnd.Intn(2) == 0 {
			add("adjacent-open", fmt.Sprintf("%s > %s AND %s < %s", x, vs[i], x, vs[i+1]))
		} else {
			add("adjacent-closed", fmt.Sprintf("%s >= %s AND %s <= %s", x, vs[i], x, vs[i+1]))
		}
	}
	for _, op := range []string{"<", "<=", ">", ">="} {
		add("open"+op, fmt.Sprintf("%s %s %s", x, op, pick()))
	}
	{
		v, w := pick(), pick()
		if CmpVal(c0.Str, v, w) > 0 {
			v, w = w, v
		}
		add("between", fmt.Sprintf("%s BETWEEN %s AND %s", x, v, w))
		add("in", fmt.Sprintf("%s IN (%s, %s)", x, pick(), pick()))
		add("ne", fmt.Sprintf("%s <> %s", x, pick()))
		add("notnull", x+" IS NOT NULL")
	}
	if c0.Str {
		for _, pre := range []string{"a", "ab", "abc", "b"} {
			if rnd.Intn(2) == 0 {
				add("like-prefix", fmt.Sprintf("%s LIKE '%s%%'", x, pre))
			}
		}
	}
	if len(ix.Cols) > 1 {
		c1 := t.Col(ix.Cols[1])
		if c1 != nil {
			y := c1.Name
			ws := se.sorted(c1)
			pickW := func() string {
				if len(ws) == 0 {
					if c1.Str {
						return "'a'"
					}
					return "0"
				}
				return ws[rnd.Intn(len(ws))]
			}
			var tups [][]string
			for _, tp := range se.Tuples[strings.Join(ix.Cols, ",")] {
				tups = append(tups, tp)
			}
			sort.Slice(tups, func(i, j int) bool { return strings.Join(tups[i], "\x00") < strings.Join(tups[j], "\x00") })
			if len(tups) > 14 {
				rnd.Shuffle(len(tups), func(i, j int) { tups[i], tups[j] = tups[j], tups[i] })
				tups = tups[:14]
			}
			for _, tp := range tups {
				add("full-key", eqOrNull(x, tp[0])+" AND "+eqOrNull(y, tp[1]))
			}
			add("full-key-unseen", fmt.Sprintf("%s = %s AND %s = %s", x, pick(), y, pickW()))
			add("eq-null", fmt.Sprintf("%s = %s AND %s IS NULL", x, pick(), y))
			add("null-eq", fmt.Sprintf("%s IS NULL AND %s = %s", x, y, pickW()))
			for _, op := range []string{"<", ">="} {
				add("eq-range"+op, fmt.Sprintf("%s = %s AND %s %s %s", x, pick(), y, op, pickW()))
			}
			add("range-eq", fmt.Sprintf("%s > %s AND %s = %s", x, pick(), y, pickW()))
			add("eq-in", fmt.Sprintf("%s = %s AND %s IN (%s, %s)", x, pick(), y, pickW(), pickW()))
		}
	}
	// ordered scans: only where the index stores whole values (a prefix index cannot order)
	whole := true
	for _, p := range ix.Prefix {
		if p > 0 {
			whole = false
		}
	}
	if whole {
		for _, desc := range []bool{false, true} {
			k := "ordered-asc"
			if desc {
				k = "ordered-desc"
			}
			out = append(out, Probe{Index: ix.Name, Shape: shape, Kind: k, Order: ix.Cols, Desc: desc})
			out = append(out, Probe{Index: ix.Name, Shape: shape, Kind: k + "-range", Where: fmt.Sprintf("%s >= %s", x, pick()), Order: ix.Cols, Desc: desc})
			out = append(out, Probe{Index: ix.Name, Shape: shape, Kind: k + "-limit", Where: fmt.Sprintf("%s <= %s", x, pick()), Order: ix.Cols, Desc: desc, Limit: 1 + rnd.Intn(3)})
		}
	}
	out = append(out, Probe{Index: ix.Name, Shape: shape, Kind: "count-point", Where: x + " = " + pick(), Count: true})
	out = append(out, Probe{Index: ix.Name, Shape: shape, Kind: "count-null", Where: x + " IS NULL", Count: true})
	out = append(out, Probe{Index: ix.Name, Shape: shape, Kind: "count-range", Where: fmt.Sprintf("%s > %s", x, pick()), Count: true})
	return out
}

// Scan is the scan-driven evaluation of a probe set on one table: every row with, per probe, whether
// the predicate is TRUE for it — computed by the projection `SELECT cols, (p) IS TRUE … FROM tbl`,
// which reads the table without any index.
type Scan struct {
	Cols  []string
	Rows  [][]string // canonical column values
	Flags [][]bool   // [row][probe]
	Err   string
}

// RowKeys returns the sorted multiset of canonical rows.
func (sc *Scan) RowKeys() []string {
	out := make([]string, len(sc.Rows))
	for i, r := range sc.Rows {
		out[i] = strings.Join(r, "|")
	}
	sort.Strings(out)
	return out
}

// ScanEval runs the scan-driven evaluation. Predicates are evaluated in chunks so that the
// projection list stays moderate.
func ScanEval(s *core.Sess, tbl string, cols []string, probes []Probe) *Scan {
	sc := &Scan{Cols: cols}
	const chunk = 40
	first := true
	for lo := 0; lo < len(probes) || first; lo += chunk {
		hi := lo + chunk
		if hi > len(probes) {
			hi = len(probes)
		}
		var b strings.Builder
		b.WriteString("SELECT " + strings.Join(cols, ", "))
		for _, p := range probes[lo:hi] {
			b.WriteString(", (" + p.Pred() + ") IS TRUE")
		}
		b.WriteString(" FROM " + tbl)
		res := s.Exec(b.String())
		if res.Failed() {
			sc.Err = fmt.Sprintf("%s: %s %v", core.Clip(b.String(), 200), res.ErrClass(), res.Err)
			return sc
		}
		// rows of different chunks are matched by position after sorting on the column part; rows with
		// equal column values have equal flags, so the association is well defined
		type rec struct {
			key   string
			cols  []string
			flags []bool
		}
		recs := make([]rec, len(res.Rows))
		for i, row := range res.Rows {
			cv := make([]string, len(cols))
			for k := range cols {
				cv[k] = core.Canon(row[k])
			}
			fl := make([]bool, hi-lo)
			for k := range fl {
				fl[k] = core.Canon(row[len(cols)+k]) == "1"
			}
			recs[i] = rec{strings.Join(cv, "|"), cv, fl}
		}
		sort.SliceStable(recs, func(i, j int) bool { return recs[i].key < recs[j].key })
		if first {
			sc.Rows = make([][]string, len(recs))
			sc.Flags = make([][]bool, len(recs))
			for i, rc := range recs {
				sc.Rows[i] = rc.cols
				sc.Flags[i] = append([]bool{}, rc.flags...)
			}
		} else {
			if len(recs) != len(sc.Rows) {
				sc.Err = "scan chunks returned different row counts"
				return sc
			}
			for i, rc := range recs {
				if strings.Join(sc.Rows[i], "|") != rc.key {
					sc.Err = "scan chunks returned different rows"
					return sc
				}
				sc.Flags[i] = append(sc.Flags[i], rc.flags...)
			}
		}
		first = false
	}
	return sc
}

// Diff is one index-driven read that disagrees with the scan-driven evaluation.
type Diff struct {
	Probe    Probe    `json:"probe"`
	Query    string   `json:"query"`
	Expected []string `json:"expected"`
	Actual   []string `json:"actual"`
	Why      string   `json:"why"`
	Plan     string   `json:"plan,omitempty"`
}

// Expected computes, from a scan, what probe i must return: the sorted multiset of matching rows and
// (for ordered scans) the sequence of key tuples.
func (sc *Scan) Expected(t *Table, i int, p Probe) (rows []string, keys []string) {
	pos := map[string]int{}
	for k, c := range sc.Cols {
		pos[c] = k
	}
	type kr struct {
		key []string
		row string
	}
	var sel []kr
	for r := range sc.Rows {
		if !sc.Flags[r][i] {
			continue
		}
		var key []string
		for _, c := range p.Order {
			key = append(key, sc.Rows[r][pos[c]])
		}
		sel = append(sel, kr{key, strings.Join(sc.Rows[r], "|")})
	}
	if len(p.Order) > 0 {
		strs := make([]bool, len(p.Order))
		for k, c := range p.Order {
			if col := t.Col(c); col != nil {
				strs[k] = col.Str
			}
		}
		sort.SliceStable(sel, func(a, b int) bool {
			for k := range p.Order {
				c := CmpVal(strs[k], sel[a].key[k], sel[b].key[k])
				if p.Desc {
					c = -c
				}
				if c != 0 {
					return c < 0
				}
			}
			return false
		})
		for _, e := range sel {
			keys = append(keys, strings.Join(e.key, "|"))
		}
	}
	for _, e := range sel {
		rows = append(rows, e.row)
	}
	sort.Strings(rows)
	return rows, keys
}

// ReadProbe executes the index-driven read of one probe and compares it with what the scan
// prescribes. It returns nil when they agree; inconclusive=true when the read failed with an error
// while the scan evaluated the predicate (reported by the caller as it sees fit).
func ReadProbe(s *core.Sess, t *Table, tbl string, sc *Scan, i int, p Probe) (d *Diff, failed *core.Result) {
	q := p.Query(tbl, sc.Cols)
	res := s.Exec(q)
	if res.Failed() {
		return &Diff{Probe: p, Query: q, Why: "index-driven read failed: " + res.ErrClass() + " " + fmt.Sprint(res.Err)}, res
	}
	expRows, expKeys := sc.Expected(t, i, p)
	if p.Count {
		got := ""
		if len(res.Rows) == 1 && len(res.Rows[0]) == 1 {
			got = core.Canon(res.Rows[0][0])
		}
		if got != fmt.Sprint(len(expRows)) {
			return &Diff{Probe: p, Query: q, Expected: []string{fmt.Sprint(len(expRows))}, Actual: []string{got}, Why: "count"}, nil
		}
		return nil, nil
	}
	act := make([]string, len(res.Rows))
	pos := map[string]int{}
	for k, c := range sc.Cols {
		pos[c] = k
	}
	var actKeys []string
	for r, row := range res.Rows {
		cv := make([]string, len(sc.Cols))
		for k := range sc.Cols {
			cv[k] = core.Canon(row[k])
		}
		act[r] = strings.Join(cv, "|")
		if len(p.Order) > 0 {
			var key []string
			for _, c := range p.Order {
				key = append(key, cv[pos[c]])
			}
			actKeys = append(actKeys, strings.Join(key, "|"))
		}
	}
	sort.Strings(act)
	rowsOK := true
	if p.Limit > 0 {
		// every returned row must be one of the matching rows (sub-multiset), and as many as the limit allows
		avail := map[string]int{}
		for _, r := range expRows {
			avail[r]++
		}
		for _, r := range act {
			if avail[r] == 0 {
				rowsOK = false
			}
			avail[r]--
		}
		wantN := len(expRows)
		if wantN > p.Limit {
			wantN = p.Limit
		}
		if len(act) != wantN {
			rowsOK = false
		}
	} else {
		rowsOK = core.SameStrings(expRows, act)
	}
	if !rowsOK {
		return &Diff{Probe: p, Query: q, Expected: core.ClipStrings(expRows, 30), Actual: core.ClipStrings(act, 30), Why: "row multiset"}, nil
	}
	if len(p.Order) > 0 {
		want := expKeys
		if p.Limit > 0 && len(want) > p.Limit {
			want = want[:p.Limit]
		}
		if !core.SameStrings(want, actKeys) {
			return &Diff{Probe: p, Query: q, Expected: core.ClipStrings(want, 30), Actual: core.ClipStrings(actKeys, 30), Why: WhyKeySequence}, nil
		}
	}
	return nil, nil
}

// WhyKeySequence marks a diff whose rows are right but whose order is not the index order.
const WhyKeySequence = "key sequence of ordered scan (rows are the right ones)"

// MissingOnly reports whether the diff consists of rows missing from the index-driven result only
// (every returned row is an expected one).
func (d *Diff) MissingOnly() bool {
	if d.Why != "row multiset" {
		return false
	}
	avail := map[string]int{}
	for _, r := range d.Expected {
		avail[r]++
	}
	for _, r := range d.Actual {
		if avail[r] == 0 {
			return false
		}
		avail[r]--
	}
	return len(d.Actual) < len(d.Expected)
}

// IndexDriven reports whether the plan of q reads tbl through an index.
func IndexDriven(s *core.Sess, q, tbl string) (bool, string) {
	pl := s.Plan(q)
	return strings.Contains(pl, "IndexedTableAccess("+tbl+")"), pl
}
