// Package g8blib holds what the monitors of C15, C16 and C17 share: a small table/index description,
// the probe-set generator for index-driven reads, the scan-driven evaluation of the same predicates,
// the DML/DDL history generator, the database fingerprint, and the worker-process protocol used when
// the process-global fault state forces one case at a time per process.
package g8blib

import (
	"fmt"
	"math/big"
	"sort"
	"strings"

	"github.com/dolthub/go-mysql-server/memory"
	"github.com/dolthub/go-mysql-server/sql"

	"verif/harness/core"
)

// Col is one column. Values are handled as canonical texts (core.Canon): integers as digits, strings
// as 'text' (the domains contain no quote or backslash, so the canonical text is also the SQL
// literal), NULL as "NULL".
type Col struct {
	Name    string
	Type    string // SQL type text
	Str     bool   // string column (bytewise order, utf8mb4_0900_bin) — otherwise integer
	NotNull bool
	Dom     []string // literals the generators draw from (never NULL)
}

// Index is one secondary index.
type Index struct {
	Name   string
	Cols   []string
	Prefix []int // per column prefix length, 0 = whole value
	Unique bool
}

// Shape is a short class name of the index for evidence keys.
func (ix Index) Shape() string {
	k := "sec"
	if ix.Unique {
		k = "uniq"
	}
	if len(ix.Cols) > 1 {
		k += "-multi"
	}
	for _, p := range ix.Prefix {
		if p > 0 {
			k += "-prefix"
			break
		}
	}
	return k
}

// ColsSQL renders the column list of the index definition.
func (ix Index) ColsSQL() string {
	parts := make([]string, len(ix.Cols))
	for i, c := range ix.Cols {
		parts[i] = c
		if i < len(ix.Prefix) && ix.Prefix[i] > 0 {
			parts[i] = fmt.Sprintf("%s(%d)", c, ix.Prefix[i])
		}
	}
	return strings.Join(parts, ",")
}

// CreateSQL renders CREATE [UNIQUE] INDEX for table tbl.
func (ix Index) CreateSQL(tbl string) string {
	u := ""
	if ix.Unique {
		u = "UNIQUE "
	}
	return fmt.Sprintf("CREATE %sINDEX %s ON %s (%s)", u, ix.Name, tbl, ix.ColsSQL())
}

// Table describes one table: columns, primary key, secondary indexes, extra clauses.
type Table struct {
	Name    string
	Cols    []Col
	PK      []string
	Indexes []Index
	Extra   []string // further clauses of CREATE TABLE (FOREIGN KEY …, CHECK …)
	Parts   int      // > 1: created through memory.NewPartitionedTable with that many partitions
}

// Col returns the column with the given name.
func (t *Table) Col(name string) *Col {
	for i := range t.Cols {
		if t.Cols[i].Name == name {
			return &t.Cols[i]
		}
	}
	return nil
}

// ColNames lists the column names in order.
func (t *Table) ColNames() []string {
	out := make([]string, len(t.Cols))
	for i, c := range t.Cols {
		out[i] = c.Name
	}
	return out
}

// HasUniqueSecondary reports whether some secondary index is unique.
func (t *Table) HasUniqueSecondary() bool {
	for _, ix := range t.Indexes {
		if ix.Unique {
			return true
		}
	}
	return false
}

// Clone copies the description (indexes and columns may then be changed independently).
func (t *Table) Clone() *Table {
	c := *t
	c.Cols = append([]Col{}, t.Cols...)
	c.PK = append([]string{}, t.PK...)
	c.Indexes = append([]Index{}, t.Indexes...)
	c.Extra = append([]string{}, t.Extra...)
	return &c
}

// CreateSQL renders CREATE TABLE; withIndexes=false leaves the secondary indexes out (index-free twin).
func (t *Table) CreateSQL(name string, withIndexes bool) string {
	var parts []string
	for _, c := range t.Cols {
		s := c.Name + " " + c.Type
		if c.NotNull {
			s += " NOT NULL"
		}
		parts = append(parts, s)
	}
	if len(t.PK) > 0 {
		parts = append(parts, "PRIMARY KEY ("+strings.Join(t.PK, ",")+")")
	}
	if withIndexes {
		for _, ix := range t.Indexes {
			u := "KEY"
			if ix.Unique {
				u = "UNIQUE KEY"
			}
			parts = append(parts, fmt.Sprintf("%s %s (%s)", u, ix.Name, ix.ColsSQL()))
		}
	}
	parts = append(parts, t.Extra...)
	return fmt.Sprintf("CREATE TABLE %s (%s)", name, strings.Join(parts, ", "))
}

// Create creates the table (and the index-free twin when twin != "") on the session's engine. Tables
// with Parts > 1 are created by SQL without indexes, replaced by a NewPartitionedTable of the same
// schema through the Go API, and get their indexes by CREATE INDEX afterwards, so the index build on
// a multi-partition table runs through the same code as for any other table.
func (t *Table) Create(s *core.Sess, twin string) {
	mk := func(name string, withIdx bool) {
		if t.Parts <= 1 {
			s.MustExec(t.CreateSQL(name, withIdx))
			return
		}
		s.MustExec(t.CreateSQL(name, false))
		repartition(s, name, t.Parts)
		if withIdx {
			for _, ix := range t.Indexes {
				s.MustExec(ix.CreateSQL(name))
			}
		}
	}
	mk(t.Name, true)
	if twin != "" {
		mk(twin, false)
	}
}

func repartition(s *core.Sess, name string, parts int) {
	ctx := s.Ctx()
	db, err := s.Eng.Pro.Database(ctx, s.Eng.DB)
	if err != nil {
		panic(fmt.Sprintf("repartition: %v", err))
	}
	var base *memory.BaseDatabase
	switch d := db.(type) {
	case *memory.Database:
		base = d.BaseDatabase
	case *memory.BaseDatabase:
		base = d
	default:
		panic(fmt.Sprintf("repartition: unexpected database type %T", db))
	}
	tbl, ok, err := base.GetTableInsensitive(ctx, name)
	if err != nil || !ok {
		panic(fmt.Sprintf("repartition: table %s not found: %v", name, err))
	}
	mt, ok := tbl.(*memory.Table)
	if !ok {
		panic(fmt.Sprintf("repartition: unexpected table type %T", tbl))
	}
	sch := mt.PrimaryKeySchema(ctx)
	base.DeleteTable(name)
	base.AddTable(name, memory.NewPartitionedTable(ctx, base, name, sch, base.GetForeignKeyCollection(), parts))
	var _ sql.Table = mt
}

// ---- values ----

// Lit renders a domain value of the column as an SQL literal / canonical text.
func (c *Col) Lit(v string) string {
	if v == "NULL" {
		return "NULL"
	}
	if c.Str && !strings.HasPrefix(v, "'") {
		return "'" + v + "'"
	}
	return v
}

// CmpVal orders two canonical values of a column the way ORDER BY does for the generated domain:
// NULL first, integers numerically, strings bytewise.
func CmpVal(str bool, a, b string) int {
	if a == "NULL" || b == "NULL" {
		switch {
		case a == b:
			return 0
		case a == "NULL":
			return -1
		}
		return 1
	}
	if str {
		return strings.Compare(a, b) // both are 'text'; the leading quote is common
	}
	x, ok1 := new(big.Int).SetString(a, 10)
	y, ok2 := new(big.Int).SetString(b, 10)
	if !ok1 || !ok2 {
		return strings.Compare(a, b)
	}
	return x.Cmp(y)
}

// SortVals sorts canonical values of a column (NULL excluded by the caller or placed first).
func SortVals(str bool, vs []string) {
	sort.Slice(vs, func(i, j int) bool { return CmpVal(str, vs[i], vs[j]) < 0 })
}

// ---- the standard C16 table family ----

var strDom = []string{"", "a", "ab", "abc", "abcd", "abce", "abd", "b", "ba", "Ab"}

func intDom(n int) []string {
	out := make([]string, n)
	for i := range out {
		out[i] = fmt.Sprint(i)
	}
	return out
}

// IndexPalette is the set of secondary indexes the histories create and drop.
var IndexPalette = []Index{
	{Name: "ia", Cols: []string{"a"}},
	{Name: "ib", Cols: []string{"b"}},
	{Name: "ub", Cols: []string{"b"}, Unique: true},
	{Name: "iab", Cols: []string{"a", "b"}},
	{Name: "iba", Cols: []string{"b", "a"}},
	{Name: "uab", Cols: []string{"a", "b"}, Unique: true},
	{Name: "isx", Cols: []string{"s"}},
	{Name: "isp", Cols: []string{"s"}, Prefix: []int{3}},
	{Name: "ias", Cols: []string{"a", "s"}},
	{Name: "isa", Cols: []string{"s", "a"}, Prefix: []int{2, 0}},
	{Name: "usb", Cols: []string{"s", "b"}, Prefix: []int{3, 0}, Unique: true},
}

// StdTable builds the table family used by the index-consistency histories: pkMode "id" (single
// integer key), "aid" (composite key (a,id), so primary order differs from insertion order) or
// "none" (keyless, whole-row duplicates possible).
func StdTable(name, pkMode string, parts int, idx []Index) *Table {
	t := &Table{Name: name, Parts: parts}
	t.Cols = []Col{
		{Name: "id", Type: "INT", Dom: nil},
		{Name: "a", Type: "INT", Dom: intDom(6)},
		{Name: "b", Type: "INT", Dom: intDom(20)},
		{Name: "c", Type: "INT", Dom: intDom(4)},
		{Name: "s", Type: "VARCHAR(12) COLLATE utf8mb4_0900_bin", Str: true, Dom: strDom},
	}
	switch pkMode {
	case "id":
		t.PK = []string{"id"}
		t.Cols[0].NotNull = true
	case "aid":
		t.PK = []string{"a", "id"}
		t.Cols[0].NotNull = true
		t.Cols[1].NotNull = true
	}
	t.Indexes = append(t.Indexes, idx...)
	return t
}
