package g9alib

import (
	"math/big"
	"strings"
)

// Expr is a tiny expression language shared by CHECKs, defaults, generated columns and WHERE
// clauses. The evaluator is the harness-side reference: Kleene three-valued logic, exact integers,
// bytewise string comparison; booleans are the integers 1/0.
type Expr interface {
	Eval(row map[string]V) V
	SQL() string
	Cols(into map[string]bool)
}

type (
	// Col is a column reference.
	Col struct{ Name string }
	// Lit is a literal.
	Lit struct{ V V }
	// Bin is a binary operator: + - * = <> < <= > >= AND OR.
	Bin struct {
		Op   string
		L, R Expr
	}
	// Not is logical negation.
	Not struct{ E Expr }
	// IsNull is `E IS [NOT] NULL`.
	IsNull struct {
		E   Expr
		Neg bool
	}
	// In is `E [NOT] IN (list of literals)`.
	In struct {
		E    Expr
		List []V
		Neg  bool
	}
	// Between is `E BETWEEN Lo AND Hi`.
	Between struct{ E, Lo, Hi Expr }
	// Coalesce is COALESCE(args...).
	Coalesce struct{ Args []Expr }
)

func boolV(b bool) V {
	if b {
		return Int(1)
	}
	return Int(0)
}

// Truth reads a value as a truth value: 1 true, 0 false, -1 unknown.
func Truth(v V) int {
	switch v.K {
	case KNull:
		return -1
	case KInt:
		if v.I.Sign() != 0 {
			return 1
		}
		return 0
	case KDec:
		if v.R.Sign() != 0 {
			return 1
		}
		return 0
	}
	return 0
}

func fromTruth(t int) V {
	if t < 0 {
		return Null
	}
	return boolV(t == 1)
}

// Cmp compares two non-NULL values of the same family (numbers exactly, strings bytewise).
func Cmp(a, b V) int {
	if a.K == KStr || b.K == KStr {
		return strings.Compare(a.S, b.S)
	}
	return ratOf(a).Cmp(ratOf(b))
}

func ratOf(v V) *big.Rat {
	if v.K == KDec {
		return v.R
	}
	return new(big.Rat).SetInt(v.I)
}

func (c Col) Eval(row map[string]V) V { return row[c.Name] }
func (c Col) SQL() string             { return Q(c.Name) }
func (c Col) Cols(m map[string]bool)  { m[c.Name] = true }

func (l Lit) Eval(map[string]V) V   { return l.V }
func (l Lit) SQL() string           { return l.V.SQL() }
func (l Lit) Cols(map[string]bool)  {}

func (b Bin) Eval(row map[string]V) V {
	l, r := b.L.Eval(row), b.R.Eval(row)
	switch b.Op {
	case "AND":
		tl, tr := Truth(l), Truth(r)
		switch {
		case tl == 0 || tr == 0:
			return Int(0)
		case tl < 0 || tr < 0:
			return Null
		}
		return Int(1)
	case "OR":
		tl, tr := Truth(l), Truth(r)
		switch {
		case tl == 1 || tr == 1:
			return Int(1)
		case tl < 0 || tr < 0:
			return Null
		}
		return Int(0)
	}
	if l.IsNull() || r.IsNull() {
		return Null
	}
	switch b.Op {
	case "+":
		return BigInt(new(big.Int).Add(l.I, r.I))
	case "-":
		return BigInt(new(big.Int).Sub(l.I, r.I))
	case "*":
		return BigInt(new(big.Int).Mul(l.I, r.I))
	}
	c := Cmp(l, r)
	switch b.Op {
	case "=":
		return boolV(c == 0)
	case "<>":
		return boolV(c != 0)
	case "<":
		return boolV(c < 0)
	case "<=":
		return boolV(c <= 0)
	case ">":
		return boolV(c > 0)
	case ">=":
		return boolV(c >= 0)
	}
	panic("g9alib: unknown operator " + b.Op)
}
func (b Bin) SQL() string            { return "(" + b.L.SQL() + " " + b.Op + " " + b.R.SQL() + ")" }
func (b Bin) Cols(m map[string]bool) { b.L.Cols(m); b.R.Cols(m) }

func (n Not) Eval(row map[string]V) V {
	t := Truth(n.E.Eval(row))
	if t < 0 {
		return Null
	}
	return boolV(t == 0)
}
func (n Not) SQL() string            { return "(NOT " + n.E.SQL() + ")" }
func (n Not) Cols(m map[string]bool) { n.E.Cols(m) }

func (n IsNull) Eval(row map[string]V) V { return boolV(n.E.Eval(row).IsNull() != n.Neg) }
func (n IsNull) SQL() string {
	if n.Neg {
		return "(" + n.E.SQL() + " IS NOT NULL)"
	}
	return "(" + n.E.SQL() + " IS NULL)"
}
func (n IsNull) Cols(m map[string]bool) { n.E.Cols(m) }

func (n In) Eval(row map[string]V) V {
	x := n.E.Eval(row)
	if x.IsNull() {
		return Null
	}
	found := false
	for _, v := range n.List {
		if Cmp(x, v) == 0 {
			found = true
		}
	}
	return boolV(found != n.Neg)
}
func (n In) SQL() string {
	parts := make([]string, len(n.List))
	for i, v := range n.List {
		parts[i] = v.SQL()
	}
	op := " IN ("
	if n.Neg {
		op = " NOT IN ("
	}
	return "(" + n.E.SQL() + op + strings.Join(parts, ", ") + "))"
}
func (n In) Cols(m map[string]bool) { n.E.Cols(m) }

func (b Between) Eval(row map[string]V) V {
	return Bin{"AND", Bin{">=", b.E, b.Lo}, Bin{"<=", b.E, b.Hi}}.Eval(row)
}
func (b Between) SQL() string {
	return "(" + b.E.SQL() + " BETWEEN " + b.Lo.SQL() + " AND " + b.Hi.SQL() + ")"
}
func (b Between) Cols(m map[string]bool) { b.E.Cols(m); b.Lo.Cols(m); b.Hi.Cols(m) }

func (c Coalesce) Eval(row map[string]V) V {
	for _, a := range c.Args {
		if v := a.Eval(row); !v.IsNull() {
			return v
		}
	}
	return Null
}
func (c Coalesce) SQL() string {
	parts := make([]string, len(c.Args))
	for i, a := range c.Args {
		parts[i] = a.SQL()
	}
	return "COALESCE(" + strings.Join(parts, ", ") + ")"
}
func (c Coalesce) Cols(m map[string]bool) {
	for _, a := range c.Args {
		a.Cols(m)
	}
}

// ColsOf lists the columns an expression references.
func ColsOf(e Expr) map[string]bool {
	m := map[string]bool{}
	if e != nil {
		e.Cols(m)
	}
	return m
}

// ParseCell turns a canonical cell (core.Canon text) of an INT or VARCHAR column back into a value.
func ParseCell(c string) V {
	if c == "NULL" {
		return Null
	}
	if strings.HasPrefix(c, "'") && strings.HasSuffix(c, "'") && len(c) >= 2 {
		return Str(c[1 : len(c)-1])
	}
	if n, ok := new(big.Int).SetString(c, 10); ok {
		return V{K: KInt, I: n}
	}
	if r, ok := new(big.Rat).SetString(c); ok {
		return V{K: KDec, R: r}
	}
	return Str("?" + c)
}
