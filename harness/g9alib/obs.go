package g9alib

import (
	"fmt"
	"sort"
	"strings"

	"verif/harness/core"
)

// Scan reads a whole table with an explicit column list and returns the rows as canonical cells,
// sorted (the engine's scan order varies from run to run on identical data).
func Scan(s *core.Sess, table string, cols []string) ([][]string, *core.Result) {
	q := "SELECT " + QuoteList(cols) + " FROM " + Q(table)
	res := s.Exec(q)
	if res.Failed() {
		return nil, res
	}
	out := make([][]string, len(res.Rows))
	for i, row := range res.Rows {
		cells := make([]string, len(row))
		for j, v := range row {
			cells[j] = core.Canon(v)
		}
		out[i] = cells
	}
	sort.Slice(out, func(a, b int) bool { return strings.Join(out[a], "|") < strings.Join(out[b], "|") })
	return out, res
}

// Lines joins canonical cells into sorted row lines.
func Lines(rows [][]string) []string {
	out := make([]string, len(rows))
	for i, r := range rows {
		out[i] = strings.Join(r, "|")
	}
	sort.Strings(out)
	return out
}

// ModelLines renders model rows as sorted row lines.
func ModelLines(rows [][]V) []string {
	out := make([]string, len(rows))
	for i, r := range rows {
		out[i] = CanonRow(r)
	}
	sort.Strings(out)
	return out
}

// Q quotes an identifier.
func Q(id string) string { return "`" + strings.ReplaceAll(id, "`", "``") + "`" }

// QuoteList quotes a list of identifiers.
func QuoteList(ids []string) string {
	out := make([]string, len(ids))
	for i, s := range ids {
		out[i] = Q(s)
	}
	return strings.Join(out, ", ")
}

// Unsupported reports whether a failed result is in the "engine says unsupported / cannot parse"
// class, which is inconclusive rather than a verdict.
func Unsupported(res *core.Result) bool {
	if res == nil || res.Err == nil {
		return false
	}
	m := strings.ToLower(res.Err.Error())
	return strings.Contains(m, "unsupported") || strings.Contains(m, "not supported") || strings.Contains(m, "does not support") ||
		strings.Contains(m, "syntax error") || strings.Contains(m, "not yet implemented") ||
		strings.Contains(m, "not implemented")
}

// Outcome is a compact description of a statement result for witnesses.
func Outcome(res *core.Result) string {
	switch {
	case res.Panic != nil:
		return "PANIC " + res.Panic.Value + " @" + res.Panic.Site
	case res.TimedOut:
		return "TIMEOUT"
	case res.Err != nil:
		return fmt.Sprintf("ERR(%s) %s", res.ErrClass(), core.Clip(res.Err.Error(), 200))
	}
	if ok, is := res.Ok(); is {
		return fmt.Sprintf("OK affected=%d", ok.RowsAffected)
	}
	return fmt.Sprintf("ROWS %d", len(res.Rows))
}
