// Package g9alib holds what the constraint / DDL history monitors (C18, C19, C21) share: a small
// exact value type whose canonical text equals core.Canon of the engine's value, order-normalised
// observation of table contents, and a deliberately naive expression evaluator (Kleene logic,
// math/big integers) used as the harness-side reference for CHECKs, defaults and generated columns.
package g9alib

import (
	"math/big"
	"strings"
)

// Kind of a model value.
type Kind int

const (
	KNull Kind = iota
	KInt
	KStr
	KDec
)

// V is one exact SQL value of the model: NULL, an integer, a string or an exact decimal.
type V struct {
	K Kind
	I *big.Int
	S string
	R *big.Rat
}

// Null is the SQL NULL.
var Null = V{K: KNull}

// Int makes an integer value.
func Int(n int64) V { return V{K: KInt, I: big.NewInt(n)} }

// BigInt makes an integer value from a big.Int (copied).
func BigInt(n *big.Int) V { return V{K: KInt, I: new(big.Int).Set(n)} }

// Str makes a string value.
func Str(s string) V { return V{K: KStr, S: s} }

// Dec makes an exact decimal value.
func Dec(r *big.Rat) V { return V{K: KDec, R: new(big.Rat).Set(r)} }

// IsNull reports whether v is NULL.
func (v V) IsNull() bool { return v.K == KNull }

// Int64 returns the integer as int64 (only for small model integers).
func (v V) Int64() int64 { return v.I.Int64() }

// Canon is the canonical text; it equals core.Canon of the engine's representation of the value.
func (v V) Canon() string {
	switch v.K {
	case KNull:
		return "NULL"
	case KInt:
		return v.I.String()
	case KStr:
		return "'" + v.S + "'"
	case KDec:
		return RatText(v.R)
	}
	return "?"
}

// SQL renders the value as a literal.
func (v V) SQL() string {
	switch v.K {
	case KNull:
		return "NULL"
	case KInt:
		return v.I.String()
	case KStr:
		return "'" + strings.ReplaceAll(strings.ReplaceAll(v.S, `\`, `\\`), "'", "''") + "'"
	case KDec:
		return RatText(v.R)
	}
	return "NULL"
}

// Equal is value identity (NULL equals NULL): used for row comparison, not SQL comparison.
func (v V) Equal(o V) bool { return v.Canon() == o.Canon() }

// RatText prints a rational whose denominator divides a power of ten as a minimal decimal text
// (no trailing zeros, no trailing point), which is what core.Canon produces for decimals.
func RatText(r *big.Rat) string {
	if r.IsInt() {
		return r.Num().String()
	}
	// find scale
	for scale := 1; scale <= 80; scale++ {
		m := new(big.Rat).Mul(r, new(big.Rat).SetInt(new(big.Int).Exp(big.NewInt(10), big.NewInt(int64(scale)), nil)))
		if m.IsInt() {
			s := r.FloatString(scale)
			s = strings.TrimRight(s, "0")
			s = strings.TrimSuffix(s, ".")
			return s
		}
	}
	return r.FloatString(30)
}

// CanonRow renders a model row like core.CanonRow renders an engine row.
func CanonRow(row []V) string {
	parts := make([]string, len(row))
	for i, v := range row {
		parts[i] = v.Canon()
	}
	return strings.Join(parts, "|")
}

// CopyRow copies a row (values are immutable by convention).
func CopyRow(row []V) []V { return append([]V(nil), row...) }

// CopyRows deep-copies a row list.
func CopyRows(rows [][]V) [][]V {
	out := make([][]V, len(rows))
	for i, r := range rows {
		out[i] = CopyRow(r)
	}
	return out
}
