package g9blib

import (
	"fmt"
	"sort"
	"strings"
)

// ---- catalog model for C43: what information_schema / SHOW must list for a set of declared objects.
// Tables are the generated *Table values themselves (mutated by the model's ALTER operations).

// MTrigger is a trigger in the model.
type MTrigger struct {
	Name, Timing, Event, Table, Body string
	Seq                              int // creation sequence number (for ACTION_ORDER)
}

// MSchema is one database.
type MSchema struct {
	Name     string
	Tables   map[string]*Table
	Views    map[string]*View
	Triggers map[string]*MTrigger
	Procs    map[string]*Proc
	// TriggerDropped marks (table|timing|event) groups from which a trigger was dropped: their
	// ACTION_ORDER numbering is not asserted any more.
	TriggerDropped map[string]bool
}

// Catalog is the whole model.
type Catalog struct {
	Schemas map[string]*MSchema
	seq     int
}

func NewCatalog() *Catalog { return &Catalog{Schemas: map[string]*MSchema{}} }

func (c *Catalog) AddSchema(name string) *MSchema {
	s := &MSchema{Name: name, Tables: map[string]*Table{}, Views: map[string]*View{}, Triggers: map[string]*MTrigger{}, Procs: map[string]*Proc{}, TriggerDropped: map[string]bool{}}
	c.Schemas[name] = s
	return s
}

func (c *Catalog) NextSeq() int { c.seq++; return c.seq }

// Row is one expected row: nil = SQL NULL; Skip marks a cell the model does not define for this row.
type Row []*string

var skipCell = new(string)

// Skip is the "not defined by the model" marker.
func Skip() *string { return skipCell }

// IsSkip reports whether a cell is the Skip marker.
func IsSkip(p *string) bool { return p == skipCell }

func sp(s string) *string { return &s }

func spf(f string, a ...any) *string { s := fmt.Sprintf(f, a...); return &s }

// Expect is the expected content of one catalog relation.
type Expect struct {
	Name   string // e.g. "COLUMNS", "SHOW COLUMNS"
	Schema string // for per-schema / per-table SHOW statements
	Table  string
	Query  string
	Cols   []string // result column names to project (matched case-insensitively)
	KeyN   int      // the first KeyN columns identify a row
	Rows   []Row
}

func sortedKeys[V any](m map[string]V) []string {
	var ks []string
	for k := range m {
		ks = append(ks, k)
	}
	sort.Strings(ks)
	return ks
}

// ColumnKey computes COLUMN_KEY for a column of a table; ok=false when MySQL's rule is not clear-cut
// (promotion of a NOT NULL unique index to PRI in a table without primary key; prefixed unique index).
func ColumnKey(t *Table, col string) (key string, ok bool) {
	pk := t.PKCols()
	for _, p := range pk {
		if p == col {
			return "PRI", true
		}
	}
	uni, mul := false, false
	for _, ix := range t.Indexes {
		if len(ix.Cols) == 0 || ix.Cols[0].Col != col {
			continue
		}
		if ix.Kind == "UNIQUE" {
			if ix.Cols[0].Prefix > 0 {
				return "", false
			}
			if len(pk) == 0 {
				allNN := true
				for _, p := range ix.Cols {
					if c := t.Col(p.Col); c == nil || !c.NotNull {
						allNN = false
					}
				}
				if allNN {
					return "", false
				}
			}
			if len(ix.Cols) == 1 {
				uni = true
			} else {
				mul = true
			}
		} else {
			mul = true
		}
	}
	for _, c := range t.Cols {
		if c.Name == col && c.InlineUniq {
			uni = true
		}
	}
	switch {
	case uni:
		return "UNI", true
	case mul:
		return "MUL", true
	}
	return "", true
}

// ColDefaultExtra gives COLUMN_DEFAULT and EXTRA of a plain-palette column.
func ColDefaultExtra(c *Col) (def *string, extra string) {
	if c.AutoInc {
		return nil, "auto_increment"
	}
	switch {
	case c.Default == "" || c.Default == "NULL":
		def = nil
	case c.DefaultLit:
		def = sp(c.DefaultVal)
	default:
		def = sp(c.Default) // CURRENT_TIMESTAMP[(n)]
		extra = "DEFAULT_GENERATED"
	}
	if c.OnUpdate != "" {
		if extra != "" {
			extra += " "
		}
		extra += "on update " + c.OnUpdate
	}
	return def, extra
}

func yesNo(b bool) string {
	if b {
		return "YES"
	}
	return "NO"
}

func ruleText(a string) string {
	if a == "" {
		return "NO ACTION"
	}
	return a
}

// indexType gives INDEX_TYPE.
func indexType(ix *Index) string {
	switch ix.Kind {
	case "FULLTEXT":
		return "FULLTEXT"
	case "SPATIAL":
		return "SPATIAL"
	}
	return "BTREE"
}

// Expectations derives every relation the oracle compares from the model.
func (c *Catalog) Expectations() []*Expect {
	var names []string
	for _, n := range sortedKeys(c.Schemas) {
		names = append(names, "'"+n+"'")
	}
	// a schema list that also covers schemas the model has dropped
	in := "('d','d2','d3')"
	tables := &Expect{Name: "TABLES", KeyN: 2, Cols: []string{"TABLE_SCHEMA", "TABLE_NAME", "TABLE_TYPE", "ENGINE", "TABLE_COMMENT"},
		Query: "SELECT * FROM information_schema.TABLES WHERE TABLE_SCHEMA IN " + in}
	columns := &Expect{Name: "COLUMNS", KeyN: 3, Cols: []string{"TABLE_SCHEMA", "TABLE_NAME", "COLUMN_NAME", "ORDINAL_POSITION", "COLUMN_DEFAULT", "IS_NULLABLE", "DATA_TYPE", "COLUMN_TYPE", "COLUMN_KEY", "EXTRA", "COLUMN_COMMENT"},
		Query: "SELECT * FROM information_schema.COLUMNS WHERE TABLE_SCHEMA IN " + in}
	stats := &Expect{Name: "STATISTICS", KeyN: 4, Cols: []string{"TABLE_SCHEMA", "TABLE_NAME", "INDEX_NAME", "SEQ_IN_INDEX", "NON_UNIQUE", "COLUMN_NAME", "SUB_PART", "NULLABLE", "INDEX_TYPE", "INDEX_COMMENT"},
		Query: "SELECT * FROM information_schema.STATISTICS WHERE TABLE_SCHEMA IN " + in}
	kcu := &Expect{Name: "KEY_COLUMN_USAGE", KeyN: 4, Cols: []string{"TABLE_SCHEMA", "TABLE_NAME", "CONSTRAINT_NAME", "ORDINAL_POSITION", "CONSTRAINT_SCHEMA", "COLUMN_NAME", "POSITION_IN_UNIQUE_CONSTRAINT", "REFERENCED_TABLE_SCHEMA", "REFERENCED_TABLE_NAME", "REFERENCED_COLUMN_NAME"},
		Query: "SELECT * FROM information_schema.KEY_COLUMN_USAGE WHERE TABLE_SCHEMA IN " + in}
	tc := &Expect{Name: "TABLE_CONSTRAINTS", KeyN: 4, Cols: []string{"TABLE_SCHEMA", "TABLE_NAME", "CONSTRAINT_NAME", "CONSTRAINT_TYPE", "CONSTRAINT_SCHEMA", "ENFORCED"},
		Query: "SELECT * FROM information_schema.TABLE_CONSTRAINTS WHERE TABLE_SCHEMA IN " + in}
	rc := &Expect{Name: "REFERENTIAL_CONSTRAINTS", KeyN: 2, Cols: []string{"CONSTRAINT_SCHEMA", "CONSTRAINT_NAME", "UNIQUE_CONSTRAINT_SCHEMA", "UNIQUE_CONSTRAINT_NAME", "UPDATE_RULE", "DELETE_RULE", "TABLE_NAME", "REFERENCED_TABLE_NAME"},
		Query: "SELECT * FROM information_schema.REFERENTIAL_CONSTRAINTS WHERE CONSTRAINT_SCHEMA IN " + in}
	cc := &Expect{Name: "CHECK_CONSTRAINTS", KeyN: 2, Cols: []string{"CONSTRAINT_SCHEMA", "CONSTRAINT_NAME"},
		Query: "SELECT * FROM information_schema.CHECK_CONSTRAINTS WHERE CONSTRAINT_SCHEMA IN " + in}
	trg := &Expect{Name: "TRIGGERS", KeyN: 2, Cols: []string{"TRIGGER_SCHEMA", "TRIGGER_NAME", "EVENT_MANIPULATION", "EVENT_OBJECT_SCHEMA", "EVENT_OBJECT_TABLE", "ACTION_ORDER", "ACTION_STATEMENT", "ACTION_ORIENTATION", "ACTION_TIMING"},
		Query: "SELECT * FROM information_schema.TRIGGERS WHERE TRIGGER_SCHEMA IN " + in}
	rt := &Expect{Name: "ROUTINES", KeyN: 2, Cols: []string{"ROUTINE_SCHEMA", "ROUTINE_NAME", "ROUTINE_TYPE", "ROUTINE_DEFINITION", "IS_DETERMINISTIC", "SQL_DATA_ACCESS", "SECURITY_TYPE", "ROUTINE_COMMENT"},
		Query: "SELECT * FROM information_schema.ROUTINES WHERE ROUTINE_SCHEMA IN " + in}
	par := &Expect{Name: "PARAMETERS", KeyN: 3, Cols: []string{"SPECIFIC_SCHEMA", "SPECIFIC_NAME", "ORDINAL_POSITION", "PARAMETER_MODE", "PARAMETER_NAME", "DATA_TYPE"},
		Query: "SELECT * FROM information_schema.PARAMETERS WHERE SPECIFIC_SCHEMA IN " + in}
	views := &Expect{Name: "VIEWS", KeyN: 2, Cols: []string{"TABLE_SCHEMA", "TABLE_NAME"},
		Query: "SELECT * FROM information_schema.VIEWS WHERE TABLE_SCHEMA IN " + in}
	schemata := &Expect{Name: "SCHEMATA", KeyN: 1, Cols: []string{"SCHEMA_NAME"},
		Query: "SELECT * FROM information_schema.SCHEMATA WHERE SCHEMA_NAME IN " + in}
	out := []*Expect{tables, columns, stats, kcu, tc, rc, cc, trg, rt, par, views, schemata}

	for _, sn := range sortedKeys(c.Schemas) {
		s := c.Schemas[sn]
		schemata.Rows = append(schemata.Rows, Row{sp(sn)})
		showTables := &Expect{Name: "SHOW TABLES", Schema: sn, KeyN: 1, Cols: []string{"#0"}, Query: "SHOW TABLES FROM " + Q(sn)}
		showFull := &Expect{Name: "SHOW FULL TABLES", Schema: sn, KeyN: 1, Cols: []string{"#0", "Table_type"}, Query: "SHOW FULL TABLES FROM " + Q(sn)}
		showTrg := &Expect{Name: "SHOW TRIGGERS", Schema: sn, KeyN: 1, Cols: []string{"Trigger", "Event", "Table", "Statement", "Timing"}, Query: "SHOW TRIGGERS FROM " + Q(sn)}
		showProc := &Expect{Name: "SHOW PROCEDURE STATUS", Schema: sn, KeyN: 2, Cols: []string{"Db", "Name", "Type"}, Query: "SHOW PROCEDURE STATUS WHERE Db = '" + sn + "'"}
		out = append(out, showTables, showFull, showTrg, showProc)

		for _, tn := range sortedKeys(s.Tables) {
			t := s.Tables[tn]
			tables.Rows = append(tables.Rows, Row{sp(sn), sp(tn), sp("BASE TABLE"), sp("InnoDB"), sp(t.Comment)})
			showTables.Rows = append(showTables.Rows, Row{sp(tn)})
			showFull.Rows = append(showFull.Rows, Row{sp(tn), sp("BASE TABLE")})
			showCols := &Expect{Name: "SHOW COLUMNS", Schema: sn, Table: tn, KeyN: 1, Cols: []string{"Field", "Type", "Null", "Key", "Default", "Extra"}, Query: "SHOW COLUMNS FROM " + Q(sn) + "." + Q(tn)}
			showIdx := &Expect{Name: "SHOW INDEXES", Schema: sn, Table: tn, KeyN: 2, Cols: []string{"Key_name", "Seq_in_index", "Table", "Non_unique", "Column_name", "Sub_part", "Null", "Index_type"}, Query: "SHOW INDEXES FROM " + Q(sn) + "." + Q(tn)}
			out = append(out, showCols, showIdx)
			for i, col := range t.Cols {
				def, extra := ColDefaultExtra(col)
				key, kok := ColumnKey(t, col.Name)
				keyCell := sp(key)
				if !kok {
					keyCell = Skip()
				}
				nullable := !col.NotNull
				for _, p := range t.PKCols() {
					if p == col.Name {
						nullable = false
					}
				}
				columns.Rows = append(columns.Rows, Row{sp(sn), sp(tn), sp(col.Name), spf("%d", i+1), def, sp(yesNo(nullable)), sp(col.T.DataType), sp(col.T.ColType), keyCell, sp(extra), sp(col.Comment)})
				showCols.Rows = append(showCols.Rows, Row{sp(col.Name), sp(col.T.ColType), sp(yesNo(nullable)), keyCell, def, sp(extra)})
			}
			addIdx := func(name string, unique bool, typ string, comment string, parts []IdxCol) {
				for k, p := range parts {
					col := t.Col(p.Col)
					nullable := ""
					isPK := false
					for _, x := range t.PKCols() {
						if x == p.Col {
							isPK = true
						}
					}
					if col != nil && !col.NotNull && !isPK {
						nullable = "YES"
					}
					var sub *string
					if p.Prefix > 0 {
						sub = spf("%d", p.Prefix)
					}
					nu := "1"
					if unique {
						nu = "0"
					}
					stats.Rows = append(stats.Rows, Row{sp(sn), sp(tn), sp(name), spf("%d", k+1), sp(nu), sp(p.Col), sub, sp(nullable), sp(typ), sp(comment)})
					showIdx.Rows = append(showIdx.Rows, Row{sp(name), spf("%d", k+1), sp(tn), sp(nu), sp(p.Col), sub, sp(nullable), sp(typ)})
				}
			}
			if pk := t.PKCols(); len(pk) > 0 {
				var parts []IdxCol
				for k, p := range pk {
					parts = append(parts, IdxCol{Col: p})
					kcu.Rows = append(kcu.Rows, Row{sp(sn), sp(tn), sp("PRIMARY"), spf("%d", k+1), sp(sn), sp(p), nil, nil, nil, nil})
				}
				addIdx("PRIMARY", true, "BTREE", "", parts)
				tc.Rows = append(tc.Rows, Row{sp(sn), sp(tn), sp("PRIMARY"), sp("PRIMARY KEY"), sp(sn), sp("YES")})
			}
			for _, col := range t.Cols {
				if col.InlineUniq {
					addIdx(col.Name, true, "BTREE", "", []IdxCol{{Col: col.Name}})
					kcu.Rows = append(kcu.Rows, Row{sp(sn), sp(tn), sp(col.Name), sp("1"), sp(sn), sp(col.Name), nil, nil, nil, nil})
					tc.Rows = append(tc.Rows, Row{sp(sn), sp(tn), sp(col.Name), sp("UNIQUE"), sp(sn), sp("YES")})
				}
			}
			for _, ix := range t.Indexes {
				addIdx(ix.Name, ix.Kind == "UNIQUE", indexType(ix), ix.Comment, ix.Cols)
				if ix.Kind == "UNIQUE" {
					for k, p := range ix.Cols {
						kcu.Rows = append(kcu.Rows, Row{sp(sn), sp(tn), sp(ix.Name), spf("%d", k+1), sp(sn), sp(p.Col), nil, nil, nil, nil})
					}
					tc.Rows = append(tc.Rows, Row{sp(sn), sp(tn), sp(ix.Name), sp("UNIQUE"), sp(sn), sp("YES")})
				}
			}
			for _, ck := range t.Checks {
				tc.Rows = append(tc.Rows, Row{sp(sn), sp(tn), sp(ck.Name), sp("CHECK"), sp(sn), sp(yesNo(!ck.NotEnforced))})
				cc.Rows = append(cc.Rows, Row{sp(sn), sp(ck.Name)})
			}
			for _, fk := range t.FKs {
				tc.Rows = append(tc.Rows, Row{sp(sn), sp(tn), sp(fk.Name), sp("FOREIGN KEY"), sp(sn), sp("YES")})
				for k, col := range fk.Cols {
					kcu.Rows = append(kcu.Rows, Row{sp(sn), sp(tn), sp(fk.Name), spf("%d", k+1), sp(sn), sp(col), spf("%d", k+1), sp(sn), sp(fk.Parent), sp(fk.ParentCol[k])})
				}
				uc := sp("PRIMARY")
				if fk.ParentCol[0] == "k" {
					uc = sp("uk")
				}
				// which key MySQL names when several unique keys lead with the referenced column is not clear-cut
				if pt := s.Tables[fk.Parent]; pt != nil {
					n := 0
					if pk := pt.PKCols(); len(pk) > 0 && pk[0] == fk.ParentCol[0] {
						n++
					}
					for _, ix := range pt.Indexes {
						if ix.Kind == "UNIQUE" && len(ix.Cols) > 0 && ix.Cols[0].Col == fk.ParentCol[0] {
							n++
						}
					}
					if n != 1 {
						uc = Skip()
					}
				}
				rc.Rows = append(rc.Rows, Row{sp(sn), sp(fk.Name), sp(sn), uc, sp(ruleText(fk.OnUpdate)), sp(ruleText(fk.OnDelete)), sp(tn), sp(fk.Parent)})
			}
		}
		for _, vn := range sortedKeys(s.Views) {
			v := s.Views[vn]
			tables.Rows = append(tables.Rows, Row{sp(sn), sp(vn), sp("VIEW"), nil, sp("VIEW")})
			views.Rows = append(views.Rows, Row{sp(sn), sp(vn)})
			showTables.Rows = append(showTables.Rows, Row{sp(vn)})
			showFull.Rows = append(showFull.Rows, Row{sp(vn), sp("VIEW")})
			for i, cn := range v.Columns {
				columns.Rows = append(columns.Rows, Row{sp(sn), sp(vn), sp(cn), spf("%d", i+1), Skip(), Skip(), Skip(), Skip(), Skip(), Skip(), Skip()})
			}
		}
		// triggers: ACTION_ORDER = rank by creation within (table, timing, event)
		groups := map[string][]*MTrigger{}
		for _, n := range sortedKeys(s.Triggers) {
			t := s.Triggers[n]
			g := t.Table + "|" + t.Timing + "|" + t.Event
			groups[g] = append(groups[g], t)
		}
		for g, ts := range groups {
			sort.Slice(ts, func(i, j int) bool { return ts[i].Seq < ts[j].Seq })
			for k, t := range ts {
				order := spf("%d", k+1)
				if s.TriggerDropped[g] {
					order = Skip()
				}
				trg.Rows = append(trg.Rows, Row{sp(sn), sp(t.Name), sp(t.Event), sp(sn), sp(t.Table), order, sp(t.Body), sp("ROW"), sp(t.Timing)})
				showTrg.Rows = append(showTrg.Rows, Row{sp(t.Name), sp(t.Event), sp(t.Table), sp(t.Body), sp(t.Timing)})
			}
		}
		for _, pn := range sortedKeys(s.Procs) {
			p := s.Procs[pn]
			det, access, sec := "NO", "CONTAINS SQL", "DEFINER"
			for _, ch := range p.Chars {
				switch {
				case ch == "DETERMINISTIC":
					det = "YES"
				case ch == "NOT DETERMINISTIC":
					det = "NO"
				case ch == "CONTAINS SQL" || ch == "NO SQL" || ch == "READS SQL DATA" || ch == "MODIFIES SQL DATA":
					access = ch
				case strings.HasPrefix(ch, "SQL SECURITY "):
					sec = strings.TrimPrefix(ch, "SQL SECURITY ")
				}
			}
			rt.Rows = append(rt.Rows, Row{sp(sn), sp(pn), sp("PROCEDURE"), sp(p.Body), sp(det), sp(access), sp(sec), sp(p.Comment)})
			showProc.Rows = append(showProc.Rows, Row{sp(sn), sp(pn), sp("PROCEDURE")})
			for i, a := range p.Params {
				mode := a.Mode
				if mode == "" {
					mode = "IN"
				}
				dt := strings.ToLower(a.Type)
				if k := strings.Index(dt, "("); k > 0 {
					dt = dt[:k]
				}
				par.Rows = append(par.Rows, Row{sp(sn), sp(pn), spf("%d", i+1), sp(mode), sp(a.Name), sp(dt)})
			}
		}
	}
	_ = names
	return out
}
