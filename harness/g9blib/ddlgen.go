package g9blib

import (
	"fmt"
	"math/rand"
	"strings"
)

// ---- DDL model: what a generated CREATE TABLE declares. Rendered to SQL for the engine (C22, C43)
// and read directly by C43's catalog model. Fields named Exp* are the values MySQL's
// information_schema prints for the declaration (only filled for the plain palette).

// TypeSpec is one column type as written plus its catalog rendering.
type TypeSpec struct {
	SQL      string   // as written in the DDL
	Class    string   // int, uint, bool, bit, decimal, float, char, text, binary, blob, date, time, datetime, timestamp, year, enum, set, json, geom
	ColType  string   // expected information_schema.COLUMNS.COLUMN_TYPE (lower case MySQL spelling)
	DataType string   // expected DATA_TYPE
	Members  []string // enum/set members (unescaped)
	Fsp      int      // fractional seconds precision of temporal types
	Len      int      // declared length of char/binary types
	Charset  string   // explicit CHARACTER SET
	Collate  string   // explicit COLLATE
	SRID     int      // -1 = none
	Exotic   bool     // not part of the plain palette (C43 does not use it)
}

// Col is one column definition.
type Col struct {
	Name       string
	T          TypeSpec
	NotNull    bool
	Default    string // SQL text of the DEFAULT clause ("" = none), e.g. "7", "'it''s'", "(1 + 1)", "CURRENT_TIMESTAMP(3)"
	DefaultVal string // the literal's value for literal defaults (what COLUMN_DEFAULT shows); meaningful when DefaultLit
	DefaultLit bool
	OnUpdate   string // "" or CURRENT_TIMESTAMP[(n)]
	AutoInc    bool
	Comment    string // unescaped
	Generated  string // expression text without the outer parentheses ("" = not generated)
	Stored     bool
	InlinePK   bool
	InlineUniq bool
}

// IdxCol is one key part.
type IdxCol struct {
	Col    string
	Prefix int
}

// Index is a secondary index.
type Index struct {
	Name    string
	Kind    string // "", "UNIQUE", "FULLTEXT", "SPATIAL"
	Cols    []IdxCol
	Comment string
}

// Check is a CHECK constraint.
type Check struct {
	Name        string // "" = unnamed
	Expr        string
	NotEnforced bool
	Idents      []string // column names used
}

// FK is a foreign key to the fixed parent table.
type FK struct {
	Name      string
	Cols      []string
	Parent    string
	ParentCol []string
	OnDelete  string
	OnUpdate  string
}

// Table is one generated CREATE TABLE.
type Table struct {
	Name         string
	Cols         []*Col
	PK           []string // table-level PRIMARY KEY (empty when inline or none)
	Indexes      []*Index
	Checks       []*Check
	FKs          []*FK
	Collate      string // table COLLATE ("" = default)
	Charset      string
	Comment      string
	AutoIncStart int
}

// Q quotes an identifier with backticks.
func Q(id string) string { return quoteIdent(id) }

// Lit renders a Go string as a single-quoted MySQL literal (quotes doubled, backslashes doubled).
func Lit(s string) string {
	s = strings.ReplaceAll(s, "\\", "\\\\")
	s = strings.ReplaceAll(s, "'", "''")
	return "'" + s + "'"
}

// ColSQL renders one column definition.
func (c *Col) ColSQL() string {
	var b strings.Builder
	b.WriteString(Q(c.Name) + " " + c.T.SQL)
	if c.Generated != "" {
		b.WriteString(" GENERATED ALWAYS AS (" + c.Generated + ")")
		if c.Stored {
			b.WriteString(" STORED")
		} else {
			b.WriteString(" VIRTUAL")
		}
	}
	if c.NotNull {
		b.WriteString(" NOT NULL")
	}
	if c.Default != "" {
		b.WriteString(" DEFAULT " + c.Default)
	}
	if c.OnUpdate != "" {
		b.WriteString(" ON UPDATE " + c.OnUpdate)
	}
	if c.AutoInc {
		b.WriteString(" AUTO_INCREMENT")
	}
	if c.InlinePK {
		b.WriteString(" PRIMARY KEY")
	}
	if c.InlineUniq {
		b.WriteString(" UNIQUE")
	}
	if c.Comment != "" {
		b.WriteString(" COMMENT " + Lit(c.Comment))
	}
	return b.String()
}

// IndexSQL renders the key parts "(a, b(3))".
func (ix *Index) PartsSQL() string {
	var parts []string
	for _, p := range ix.Cols {
		s := Q(p.Col)
		if p.Prefix > 0 {
			s += fmt.Sprintf("(%d)", p.Prefix)
		}
		parts = append(parts, s)
	}
	return "(" + strings.Join(parts, ", ") + ")"
}

// ClauseSQL renders the index as a CREATE TABLE clause.
func (ix *Index) ClauseSQL() string {
	kw := "KEY"
	if ix.Kind != "" {
		kw = ix.Kind + " KEY"
	}
	s := kw + " " + Q(ix.Name) + " " + ix.PartsSQL()
	if ix.Comment != "" {
		s += " COMMENT " + Lit(ix.Comment)
	}
	return s
}

// ClauseSQL renders the check as a CREATE TABLE clause.
func (ck *Check) ClauseSQL() string {
	s := ""
	if ck.Name != "" {
		s = "CONSTRAINT " + Q(ck.Name) + " "
	}
	s += "CHECK (" + ck.Expr + ")"
	if ck.NotEnforced {
		s += " NOT ENFORCED"
	}
	return s
}

// ClauseSQL renders the foreign key as a CREATE TABLE clause.
func (fk *FK) ClauseSQL() string {
	q := func(a []string) string {
		var o []string
		for _, x := range a {
			o = append(o, Q(x))
		}
		return strings.Join(o, ", ")
	}
	s := ""
	if fk.Name != "" {
		s = "CONSTRAINT " + Q(fk.Name) + " "
	}
	s += "FOREIGN KEY (" + q(fk.Cols) + ") REFERENCES " + Q(fk.Parent) + " (" + q(fk.ParentCol) + ")"
	if fk.OnDelete != "" {
		s += " ON DELETE " + fk.OnDelete
	}
	if fk.OnUpdate != "" {
		s += " ON UPDATE " + fk.OnUpdate
	}
	return s
}

// SQL renders the CREATE TABLE statement.
func (t *Table) SQL() string {
	var parts []string
	for _, c := range t.Cols {
		parts = append(parts, "  "+c.ColSQL())
	}
	if len(t.PK) > 0 {
		var q []string
		for _, c := range t.PK {
			q = append(q, Q(c))
		}
		parts = append(parts, "  PRIMARY KEY ("+strings.Join(q, ", ")+")")
	}
	for _, ix := range t.Indexes {
		parts = append(parts, "  "+ix.ClauseSQL())
	}
	for _, ck := range t.Checks {
		parts = append(parts, "  "+ck.ClauseSQL())
	}
	for _, fk := range t.FKs {
		parts = append(parts, "  "+fk.ClauseSQL())
	}
	s := "CREATE TABLE " + Q(t.Name) + " (\n" + strings.Join(parts, ",\n") + "\n)"
	if t.AutoIncStart > 0 {
		s += fmt.Sprintf(" AUTO_INCREMENT=%d", t.AutoIncStart)
	}
	if t.Charset != "" {
		s += " DEFAULT CHARSET=" + t.Charset
	}
	if t.Collate != "" {
		s += " COLLATE=" + t.Collate
	}
	if t.Comment != "" {
		s += " COMMENT=" + Lit(t.Comment)
	}
	return s
}

// Col returns the column by name.
func (t *Table) Col(name string) *Col {
	for _, c := range t.Cols {
		if c.Name == name {
			return c
		}
	}
	return nil
}

// PKCols returns the primary key columns (table-level or inline).
func (t *Table) PKCols() []string {
	if len(t.PK) > 0 {
		return t.PK
	}
	for _, c := range t.Cols {
		if c.InlinePK {
			return []string{c.Name}
		}
	}
	return nil
}

// ---- generator ----

// GenOpts selects the palette.
type GenOpts struct {
	Rich     bool // exotic types, identifiers, defaults, comments (C22); false = plain palette with catalog expectations (C43)
	WithFK   bool // a parent table `parent` (id INT PRIMARY KEY, k VARCHAR(10) NOT NULL, UNIQUE KEY uk (k)) exists
	MaxCols  int
	NameHint string
	// Known-defect input classes (findings/C22.md) are outside the core domain unless asked for:
	EnumSetDefaults      bool // literal DEFAULT on ENUM/SET columns (F26)
	CheckOnBacktickIdent bool // CHECK over a column whose name contains a backtick (F27)
	RawIndexComments     bool // index COMMENT containing a quote or a backslash
}

// ParentDDL is the fixed parent table foreign keys point to.
const ParentDDL = "CREATE TABLE `parent` (`id` int NOT NULL, `k` varchar(10) NOT NULL, `n` bigint, PRIMARY KEY (`id`), UNIQUE KEY `uk` (`k`))"

var plainNames = []string{"a", "b", "c", "d", "e", "f", "g", "h", "val", "name", "qty", "ts", "flag", "note", "amount", "code"}
var exoticNames = []string{"my col", "select", "order", "Key", "x`y", "ünï", "a-b", "1st", "UPPER", "group", "c$d", "tab\tbed", "it's", "dot.ted", "back\\slash"}
var strPool = []string{"abc", "", "it's", "x y", "a\"b", "back\\slash", "ünï", "NULL", "0", "semi;colon", "per%cent", "a,b", "new\nline", "CURRENT_TIMESTAMP", "`tick`"}
var plainStrPool = []string{"abc", "", "x y", "hello", "0", "N/A", "it's"}
var collations = []string{"utf8mb4_0900_ai_ci", "utf8mb4_general_ci", "utf8mb4_unicode_ci", "utf8mb4_bin", "latin1_swedish_ci", "latin1_bin", "utf8mb3_general_ci", "ascii_general_ci", "utf8mb4_0900_bin"}

func charsetOf(coll string) string { return coll[:strings.Index(coll, "_")] }

func pickS(r *rand.Rand, a []string) string { return a[r.Intn(len(a))] }

func intType(r *rand.Rand, rich bool) TypeSpec {
	base := []string{"TINYINT", "SMALLINT", "MEDIUMINT", "INT", "BIGINT"}[r.Intn(5)]
	if r.Intn(4) == 0 {
		return TypeSpec{SQL: base + " UNSIGNED", Class: "uint", ColType: strings.ToLower(base) + " unsigned", DataType: strings.ToLower(base), SRID: -1}
	}
	return TypeSpec{SQL: base, Class: "int", ColType: strings.ToLower(base), DataType: strings.ToLower(base), SRID: -1}
}

func memberPool(r *rand.Rand, rich bool, set bool) []string {
	plain := []string{"a", "b", "c", "small", "medium", "large", "x", "y"}
	exotic := []string{"it's", "a b", "q\"q", "ü", "UP", "1", "semi;", "pa(ren"}
	if !set {
		exotic = append(exotic, "a,b", "") // a comma or an empty member is only legal in ENUM
	}
	n := 2 + r.Intn(4)
	seen := map[string]bool{}
	var out []string
	for len(out) < n {
		m := pickS(r, plain)
		if rich && r.Intn(3) == 0 {
			m = pickS(r, exotic)
		}
		if seen[strings.ToLower(m)] {
			continue
		}
		seen[strings.ToLower(m)] = true
		out = append(out, m)
	}
	return out
}

func membersSQL(ms []string) string {
	var q []string
	for _, m := range ms {
		q = append(q, Lit(m))
	}
	return strings.Join(q, ",")
}

// membersCatalog renders enum/set members the way MySQL prints them in COLUMN_TYPE.
func membersCatalog(ms []string) string {
	var q []string
	for _, m := range ms {
		q = append(q, "'"+strings.ReplaceAll(m, "'", "''")+"'")
	}
	return strings.Join(q, ",")
}

// GenType draws a column type.
func GenType(r *rand.Rand, rich bool) TypeSpec {
	none := -1
	if rich && r.Intn(12) == 0 {
		// spellings the formatter has to normalise
		syn := []TypeSpec{
			{SQL: "INTEGER", Class: "int"}, {SQL: "INT(11)", Class: "int"}, {SQL: "BOOL", Class: "bool"}, {SQL: "REAL", Class: "float"},
			{SQL: "NUMERIC(7,3)", Class: "decimal", Len: 7, Fsp: 3}, {SQL: "DEC(5)", Class: "decimal", Len: 5}, {SQL: "DECIMAL", Class: "decimal", Len: 10},
			{SQL: "CHAR", Class: "char", Len: 1}, {SQL: "NCHAR(5)", Class: "char", Len: 5}, {SQL: "NVARCHAR(9)", Class: "char", Len: 9},
			{SQL: "VARCHAR(12) CHARACTER SET latin1", Class: "char", Len: 12, Charset: "latin1"}, {SQL: "CHAR(3) CHARACTER SET utf8mb4", Class: "char", Len: 3, Charset: "utf8mb4"},
			{SQL: "DOUBLE PRECISION", Class: "float"}, {SQL: "TINYINT(1)", Class: "bool"}, {SQL: "BIGINT(20) UNSIGNED", Class: "uint"},
			{SQL: "CHARACTER VARYING(14)", Class: "char", Len: 14}, {SQL: "LONG VARCHAR", Class: "text"}, {SQL: "TIMESTAMP(0)", Class: "timestamp"}, {SQL: "DATETIME(0)", Class: "datetime"},
		}
		t := syn[r.Intn(len(syn))]
		t.SRID, t.Exotic = none, true
		return t
	}
	k := r.Intn(100)
	switch {
	case k < 22:
		return intType(r, rich)
	case k < 26:
		return TypeSpec{SQL: "BOOLEAN", Class: "bool", ColType: "tinyint(1)", DataType: "tinyint", SRID: none}
	case k < 33:
		p, s := 3+r.Intn(20), 0
		if r.Intn(3) > 0 {
			s = r.Intn(min(p, 8))
		}
		return TypeSpec{SQL: fmt.Sprintf("DECIMAL(%d,%d)", p, s), Class: "decimal", ColType: fmt.Sprintf("decimal(%d,%d)", p, s), DataType: "decimal", Len: p, Fsp: s, SRID: none}
	case k < 37:
		if r.Intn(2) == 0 {
			return TypeSpec{SQL: "FLOAT", Class: "float", ColType: "float", DataType: "float", SRID: none}
		}
		return TypeSpec{SQL: "DOUBLE", Class: "float", ColType: "double", DataType: "double", SRID: none}
	case k < 55:
		n := 1 + r.Intn(40)
		if r.Intn(6) == 0 {
			n = 10
		}
		kw := "VARCHAR"
		if r.Intn(4) == 0 {
			kw = "CHAR"
		}
		t := TypeSpec{SQL: fmt.Sprintf("%s(%d)", kw, n), Class: "char", ColType: fmt.Sprintf("%s(%d)", strings.ToLower(kw), n), DataType: strings.ToLower(kw), Len: n, SRID: none}
		if rich && r.Intn(3) == 0 {
			t.Collate = pickS(r, collations)
			t.Charset = charsetOf(t.Collate)
			if r.Intn(2) == 0 {
				t.SQL += " CHARACTER SET " + t.Charset + " COLLATE " + t.Collate
			} else {
				t.SQL += " COLLATE " + t.Collate
			}
			t.Exotic = true
		}
		return t
	case k < 61:
		kw := []string{"TINYTEXT", "TEXT", "MEDIUMTEXT", "LONGTEXT"}[r.Intn(4)]
		t := TypeSpec{SQL: kw, Class: "text", ColType: strings.ToLower(kw), DataType: strings.ToLower(kw), SRID: none}
		if rich && r.Intn(4) == 0 {
			t.Collate = pickS(r, collations)
			t.Charset = charsetOf(t.Collate)
			t.SQL += " COLLATE " + t.Collate
			t.Exotic = true
		}
		return t
	case k < 66:
		n := 1 + r.Intn(20)
		if r.Intn(2) == 0 {
			return TypeSpec{SQL: fmt.Sprintf("BINARY(%d)", n), Class: "binary", ColType: fmt.Sprintf("binary(%d)", n), DataType: "binary", Len: n, SRID: none}
		}
		return TypeSpec{SQL: fmt.Sprintf("VARBINARY(%d)", n), Class: "binary", ColType: fmt.Sprintf("varbinary(%d)", n), DataType: "varbinary", Len: n, SRID: none}
	case k < 69:
		kw := []string{"TINYBLOB", "BLOB", "MEDIUMBLOB", "LONGBLOB"}[r.Intn(4)]
		return TypeSpec{SQL: kw, Class: "blob", ColType: strings.ToLower(kw), DataType: strings.ToLower(kw), SRID: none}
	case k < 73:
		return TypeSpec{SQL: "DATE", Class: "date", ColType: "date", DataType: "date", SRID: none}
	case k < 76:
		if rich && r.Intn(2) == 0 {
			return TypeSpec{SQL: "TIME(6)", Class: "time", ColType: "time(6)", DataType: "time", Fsp: 6, SRID: none, Exotic: true}
		}
		return TypeSpec{SQL: "TIME", Class: "time", ColType: "time", DataType: "time", SRID: none}
	case k < 82:
		kw := "DATETIME"
		cl := "datetime"
		if r.Intn(2) == 0 {
			kw, cl = "TIMESTAMP", "timestamp"
		}
		if r.Intn(3) == 0 {
			f := []int{3, 6}[r.Intn(2)]
			return TypeSpec{SQL: fmt.Sprintf("%s(%d)", kw, f), Class: cl, ColType: fmt.Sprintf("%s(%d)", cl, f), DataType: cl, Fsp: f, SRID: none}
		}
		return TypeSpec{SQL: kw, Class: cl, ColType: cl, DataType: cl, SRID: none}
	case k < 84:
		return TypeSpec{SQL: "YEAR", Class: "year", ColType: "year", DataType: "year", SRID: none}
	case k < 90:
		ms := memberPool(r, rich, false)
		return TypeSpec{SQL: "ENUM(" + membersSQL(ms) + ")", Class: "enum", ColType: "enum(" + membersCatalog(ms) + ")", DataType: "enum", Members: ms, SRID: none}
	case k < 94:
		ms := memberPool(r, rich, true)
		return TypeSpec{SQL: "SET(" + membersSQL(ms) + ")", Class: "set", ColType: "set(" + membersCatalog(ms) + ")", DataType: "set", Members: ms, SRID: none}
	case k < 96:
		n := 1 + r.Intn(16)
		return TypeSpec{SQL: fmt.Sprintf("BIT(%d)", n), Class: "bit", ColType: fmt.Sprintf("bit(%d)", n), DataType: "bit", Len: n, SRID: none}
	case k < 98:
		return TypeSpec{SQL: "JSON", Class: "json", ColType: "json", DataType: "json", SRID: none}
	default:
		if !rich {
			return TypeSpec{SQL: "INT", Class: "int", ColType: "int", DataType: "int", SRID: none}
		}
		kw := []string{"GEOMETRY", "POINT", "LINESTRING", "POLYGON"}[r.Intn(4)]
		t := TypeSpec{SQL: kw, Class: "geom", ColType: strings.ToLower(kw), DataType: strings.ToLower(kw), SRID: none, Exotic: true}
		if r.Intn(2) == 0 {
			t.SRID = []int{0, 4326, 3857}[r.Intn(3)]
			t.SQL += fmt.Sprintf(" SRID %d", t.SRID)
		}
		return t
	}
}

// genDefault fills c.Default (and friends) for the column's type, or leaves it empty.
func genDefault(r *rand.Rand, c *Col, rich bool) {
	t := c.T
	lit := func(sqlText, val string) {
		c.Default, c.DefaultVal, c.DefaultLit = sqlText, val, true
	}
	if rich && r.Intn(8) == 0 && t.Class != "geom" && t.Class != "json" && t.Class != "blob" {
		// expression default
		switch t.Class {
		case "int", "uint", "decimal", "float":
			c.Default = pickS(r, []string{"(1 + 1)", "(abs(-3))", "(2 * 3)", "(length('abc'))"})
		case "char", "text":
			c.Default = pickS(r, []string{"(concat('a', 'b'))", "(upper('q'))", "('it''s')", "(repeat('z', 2))"})
		case "date", "datetime", "timestamp":
			c.Default = "(DATE '2020-01-02')"
			if t.Class != "date" {
				c.Default = "(TIMESTAMP '2020-01-02 03:04:05')"
			}
		}
		return
	}
	switch t.Class {
	case "int":
		v := []int{0, 1, -1, 7, 42, 100, -100}[r.Intn(7)]
		lit(fmt.Sprint(v), fmt.Sprint(v))
	case "uint":
		v := []int{0, 1, 7, 42, 200}[r.Intn(5)]
		lit(fmt.Sprint(v), fmt.Sprint(v))
	case "bool":
		if rich && r.Intn(2) == 0 {
			v := pickS(r, []string{"TRUE", "FALSE"})
			lit(v, map[string]string{"TRUE": "1", "FALSE": "0"}[v])
		} else {
			v := r.Intn(2)
			lit(fmt.Sprint(v), fmt.Sprint(v))
		}
	case "bit":
		if rich {
			c.Default = "b'1'"
		}
	case "decimal":
		scale := t.Fsp
		whole := r.Intn(90)
		if t.Len-scale < 2 {
			whole = r.Intn(2)
		}
		if scale == 0 {
			lit(fmt.Sprint(whole), fmt.Sprint(whole))
		} else {
			frac := strings.Repeat("5", min(scale, 2)) + strings.Repeat("0", scale-min(scale, 2))
			v := fmt.Sprintf("%d.%s", whole, frac)
			if r.Intn(2) == 0 {
				lit("'"+v+"'", v)
			} else {
				lit(v, v)
			}
		}
	case "float":
		v := pickS(r, []string{"0", "1.5", "-2.25", "100"})
		lit(v, v)
	case "char":
		pool := plainStrPool
		if rich {
			pool = strPool
		}
		for try := 0; try < 5; try++ {
			s := pickS(r, pool)
			if len([]rune(s)) <= t.Len {
				lit(Lit(s), s)
				return
			}
		}
		lit("''", "")
	case "binary":
		if rich && t.Len >= 2 {
			if r.Intn(2) == 0 {
				lit("'ab'", "ab")
			} else {
				c.Default = "0x4142"
			}
		}
	case "text":
		if rich && r.Intn(2) == 0 {
			c.Default = "('txt')"
		}
	case "date":
		lit("'2020-01-02'", "2020-01-02")
	case "time":
		lit("'12:34:56'", "12:34:56")
	case "datetime", "timestamp":
		if r.Intn(2) == 0 {
			fsp := ""
			if t.Fsp > 0 {
				fsp = fmt.Sprintf("(%d)", t.Fsp)
			}
			c.Default = "CURRENT_TIMESTAMP" + fsp
			if r.Intn(2) == 0 {
				c.OnUpdate = "CURRENT_TIMESTAMP" + fsp
			}
		} else {
			lit("'2020-01-02 03:04:05'", "2020-01-02 03:04:05")
		}
	case "year":
		lit("2020", "2020")
	case "enum":
		m := pickS(r, t.Members)
		lit(Lit(m), m)
	case "set":
		n := 1 + r.Intn(min(2, len(t.Members)))
		// members in declaration order, as MySQL normalises them
		var ms []string
		start := r.Intn(len(t.Members) - n + 1)
		ms = append(ms, t.Members[start:start+n]...)
		v := strings.Join(ms, ",")
		lit(Lit(v), v)
	}
}

func keyable(c *Col) bool {
	switch c.T.Class {
	case "int", "uint", "bool", "decimal", "char", "binary", "date", "time", "datetime", "timestamp", "year", "enum", "float":
		return c.Generated == "" || c.Stored
	}
	return false
}

// GenTable draws one CREATE TABLE.
func GenTable(r *rand.Rand, name string, o GenOpts) *Table {
	t := &Table{Name: name}
	maxc := o.MaxCols
	if maxc == 0 {
		maxc = 8
	}
	n := 1 + r.Intn(maxc)
	used := map[string]bool{}
	newName := func() string {
		for {
			nm := pickS(r, plainNames)
			if o.Rich && r.Intn(5) == 0 {
				nm = pickS(r, exoticNames)
			}
			if r.Intn(3) == 0 {
				nm += fmt.Sprint(r.Intn(9))
			}
			if !used[strings.ToLower(nm)] {
				used[strings.ToLower(nm)] = true
				return nm
			}
		}
	}
	for i := 0; i < n; i++ {
		c := &Col{Name: newName(), T: GenType(r, o.Rich)}
		c.NotNull = r.Intn(3) == 0
		if c.T.Class == "geom" && r.Intn(2) == 0 {
			c.NotNull = true
		}
		if r.Intn(3) == 0 && (o.EnumSetDefaults || (c.T.Class != "enum" && c.T.Class != "set")) {
			genDefault(r, c, o.Rich)
		}
		if o.Rich && c.Default == "" && !c.NotNull && r.Intn(12) == 0 && c.T.Class != "geom" {
			c.Default = "NULL"
		}
		if o.Rich && r.Intn(20) == 0 && keyable(c) && c.T.Class != "float" {
			c.InlineUniq = true
		}
		if r.Intn(6) == 0 {
			pool := plainStrPool
			if o.Rich {
				pool = strPool
			}
			c.Comment = "c:" + pickS(r, pool)
		}
		t.Cols = append(t.Cols, c)
	}
	// generated column over an earlier plain column
	if o.Rich && r.Intn(4) == 0 {
		for _, src := range t.Cols {
			if src.T.Class == "int" && src.Generated == "" {
				g := &Col{Name: newName(), T: TypeSpec{SQL: "BIGINT", Class: "int", ColType: "bigint", DataType: "bigint", SRID: -1}, Generated: Q(src.Name) + " + 1", Stored: r.Intn(2) == 0}
				t.Cols = append(t.Cols, g)
				break
			}
			if src.T.Class == "char" && src.Generated == "" && src.T.Collate == "" {
				g := &Col{Name: newName(), T: TypeSpec{SQL: "VARCHAR(100)", Class: "char", ColType: "varchar(100)", DataType: "varchar", Len: 100, SRID: -1}, Generated: "concat(" + Q(src.Name) + ", 'x')", Stored: r.Intn(2) == 0}
				t.Cols = append(t.Cols, g)
				break
			}
		}
	}
	// primary key
	var keyCols []*Col
	for _, c := range t.Cols {
		if keyable(c) && c.Generated == "" {
			keyCols = append(keyCols, c)
		}
	}
	if len(keyCols) > 0 && r.Intn(4) > 0 {
		k := keyCols[r.Intn(len(keyCols))]
		k.NotNull = true
		if k.Default == "NULL" {
			k.Default = ""
		}
		switch {
		case r.Intn(3) == 0 && len(keyCols) > 1:
			k2 := keyCols[r.Intn(len(keyCols))]
			if k2 != k {
				k2.NotNull = true
				t.PK = []string{k.Name, k2.Name}
			} else {
				t.PK = []string{k.Name}
			}
		case r.Intn(2) == 0:
			k.InlinePK = true
		default:
			t.PK = []string{k.Name}
		}
		if (k.T.Class == "int" || k.T.Class == "uint") && len(t.PK) <= 1 && r.Intn(3) == 0 {
			k.AutoInc = true
			k.Default, k.DefaultLit, k.DefaultVal = "", false, ""
			if o.Rich && r.Intn(3) == 0 {
				t.AutoIncStart = 10 + r.Intn(90)
			}
		}
	}
	// secondary indexes
	idxNames := map[string]bool{}
	nidx := r.Intn(3)
	for i := 0; i < nidx && len(keyCols) > 0; i++ {
		ix := &Index{Name: fmt.Sprintf("ix%d", i)}
		if o.Rich && r.Intn(5) == 0 {
			ix.Name = pickS(r, []string{"my idx", "select", "i`x", "IX-Ü"}) + fmt.Sprint(i)
		}
		if idxNames[strings.ToLower(ix.Name)] {
			continue
		}
		idxNames[strings.ToLower(ix.Name)] = true
		if r.Intn(3) == 0 {
			ix.Kind = "UNIQUE"
		}
		np := 1 + r.Intn(2)
		seen := map[string]bool{}
		for j := 0; j < np; j++ {
			c := keyCols[r.Intn(len(keyCols))]
			if seen[c.Name] {
				continue
			}
			seen[c.Name] = true
			p := IdxCol{Col: c.Name}
			if (c.T.Class == "char" || c.T.Class == "binary") && c.T.Len > 2 && r.Intn(3) == 0 {
				p.Prefix = 1 + r.Intn(c.T.Len-1)
			}
			ix.Cols = append(ix.Cols, p)
		}
		if o.Rich && r.Intn(6) == 0 {
			for {
				ix.Comment = "ic:" + pickS(r, strPool)
				if o.RawIndexComments || !strings.ContainsAny(ix.Comment, "'\\") {
					break
				}
			}
		}
		t.Indexes = append(t.Indexes, ix)
	}
	if o.Rich && r.Intn(8) == 0 {
		for _, c := range t.Cols {
			if c.T.Class == "text" && c.Generated == "" || (c.T.Class == "char" && c.Generated == "") {
				t.Indexes = append(t.Indexes, &Index{Name: "ft0", Kind: "FULLTEXT", Cols: []IdxCol{{Col: c.Name}}})
				break
			}
		}
	}
	if o.Rich && r.Intn(4) == 0 {
		for _, c := range t.Cols {
			if c.T.Class == "geom" && c.NotNull && c.T.SRID >= 0 {
				t.Indexes = append(t.Indexes, &Index{Name: "sp0", Kind: "SPATIAL", Cols: []IdxCol{{Col: c.Name}}})
				break
			}
		}
	}
	// checks
	nck := 0
	if r.Intn(3) == 0 {
		nck = 1 + r.Intn(2)
	}
	for i := 0; i < nck; i++ {
		var cands []*Col
		for _, c := range t.Cols {
			if (c.T.Class == "int" || c.T.Class == "uint" || c.T.Class == "decimal" || c.T.Class == "char") && c.Generated == "" && !c.AutoInc &&
				(o.CheckOnBacktickIdent || !strings.Contains(c.Name, "`")) {
				cands = append(cands, c)
			}
		}
		if len(cands) == 0 {
			break
		}
		c := cands[r.Intn(len(cands))]
		ck := &Check{Idents: []string{c.Name}}
		if r.Intn(2) == 0 {
			ck.Name = fmt.Sprintf("ck%d", i)
			if o.Rich && r.Intn(5) == 0 {
				ck.Name = pickS(r, []string{"my chk", "check", "c`k"}) + fmt.Sprint(i)
			}
		}
		q := Q(c.Name)
		if c.T.Class == "char" {
			ck.Expr = pickS(r, []string{q + " <> 'zzz'", "length(" + q + ") < 100", q + " NOT IN ('p', 'q')", q + " <> 'it''s'"})
		} else {
			ck.Expr = pickS(r, []string{q + " > -1000", q + " < 100000", q + " BETWEEN -1000 AND 100000", q + " IN (0, 1, 2, 7, 42, 100, 200, -1, -100) OR " + q + " IS NULL OR " + q + " > -5", "(" + q + " + 1) > -999"})
		}
		if o.Rich && r.Intn(6) == 0 {
			ck.NotEnforced = true
		}
		t.Checks = append(t.Checks, ck)
	}
	// foreign key to the parent
	if o.WithFK && r.Intn(4) == 0 {
		for _, c := range t.Cols {
			if c.T.SQL == "INT" && c.Generated == "" && !c.AutoInc {
				fk := &FK{Cols: []string{c.Name}, Parent: "parent", ParentCol: []string{"id"}}
				if r.Intn(2) == 0 {
					fk.Name = "fk_" + fmt.Sprint(r.Intn(100))
				}
				acts := []string{"", "CASCADE", "SET NULL", "RESTRICT", "NO ACTION"}
				fk.OnDelete = acts[r.Intn(len(acts))]
				fk.OnUpdate = acts[r.Intn(len(acts))]
				if c.NotNull && (fk.OnDelete == "SET NULL" || fk.OnUpdate == "SET NULL") {
					fk.OnDelete, fk.OnUpdate = "CASCADE", ""
				}
				if c.Default != "" && !c.DefaultLit {
					break
				}
				t.FKs = append(t.FKs, fk)
				break
			}
		}
	}
	if o.WithFK && o.Rich && len(t.FKs) == 0 && r.Intn(4) == 0 {
		for _, c := range t.Cols {
			if c.T.SQL == "VARCHAR(10)" && c.Generated == "" && (c.Default == "" || c.Default == "NULL") {
				t.FKs = append(t.FKs, &FK{Name: "fk_k", Cols: []string{c.Name}, Parent: "parent", ParentCol: []string{"k"}, OnUpdate: pickS(r, []string{"", "CASCADE", "RESTRICT"})})
				break
			}
		}
	}
	// table options
	if o.Rich && r.Intn(4) == 0 {
		t.Collate = pickS(r, collations)
		if r.Intn(2) == 0 {
			t.Charset = charsetOf(t.Collate)
		}
	}
	if r.Intn(5) == 0 {
		pool := plainStrPool
		if o.Rich {
			pool = strPool
		}
		t.Comment = "t:" + pickS(r, pool)
	}
	return t
}

// Features lists the feature tags of a table (used for evidence keys and finding matchers).
func (t *Table) Features() []string {
	f := map[string]bool{}
	for _, c := range t.Cols {
		f["type:"+c.T.Class] = true
		if c.Default != "" {
			if c.DefaultLit {
				f["default-literal:"+c.T.Class] = true
			} else {
				f["default-expr:"+c.T.Class] = true
			}
		}
		if c.OnUpdate != "" {
			f["on-update"] = true
		}
		if c.Generated != "" {
			f["generated"] = true
		}
		if c.AutoInc {
			f["auto-increment"] = true
		}
		if c.Comment != "" {
			f["column-comment"] = true
		}
		if c.T.Collate != "" {
			f["column-collation"] = true
		}
		if c.T.SRID >= 0 {
			f["srid"] = true
		}
		if needsQuoting(c.Name) {
			f["exotic-identifier"] = true
		}
	}
	if len(t.PKCols()) > 1 {
		f["composite-pk"] = true
	} else if len(t.PKCols()) == 1 {
		f["pk"] = true
	}
	for _, ix := range t.Indexes {
		k := ix.Kind
		if k == "" {
			k = "plain"
		}
		f["index:"+strings.ToLower(k)] = true
		for _, p := range ix.Cols {
			if p.Prefix > 0 {
				f["index-prefix"] = true
			}
		}
		if ix.Comment != "" {
			f["index-comment"] = true
		}
	}
	for _, ck := range t.Checks {
		f["check"] = true
		if ck.NotEnforced {
			f["check-not-enforced"] = true
		}
	}
	if len(t.FKs) > 0 {
		f["fk"] = true
	}
	if t.Collate != "" {
		f["table-collation"] = true
	}
	if t.Comment != "" {
		f["table-comment"] = true
	}
	var out []string
	for k := range f {
		out = append(out, k)
	}
	sortStrings(out)
	return out
}

func needsQuoting(id string) bool {
	for _, ch := range id {
		if !(ch == '_' || ch >= 'a' && ch <= 'z' || ch >= 'A' && ch <= 'Z' || ch >= '0' && ch <= '9') {
			return true
		}
	}
	switch strings.ToLower(id) {
	case "select", "order", "key", "group", "check", "1st":
		return true
	}
	return false
}

func sortStrings(a []string) {
	for i := 1; i < len(a); i++ {
		for j := i; j > 0 && a[j] < a[j-1]; j-- {
			a[j], a[j-1] = a[j-1], a[j]
		}
	}
}
