// Package g9blib holds what the monitors of C22, C42 and C43 share: an engine factory with the
// grant tables enabled, the database fingerprint (all rows + catalog listing) and seeded DDL generators.
package g9blib

import (
	"fmt"
	"sort"
	"strings"

	sqle "github.com/dolthub/go-mysql-server"
	"github.com/dolthub/go-mysql-server/memory"
	"github.com/dolthub/go-mysql-server/sql"
	"github.com/dolthub/go-mysql-server/sql/mysql_db"

	"verif/harness/core"
)

// NewEng makes an in-memory engine over the given databases (the first is the session default) with
// the grant tables enabled and a root@localhost superuser, so that account statements, SHOW
// PROCEDURE STATUS and information_schema.ROUTINES/TRIGGERS (which are privilege-filtered) work.
func NewEng(dbs ...sql.Database) *core.Eng {
	pro := memory.NewDBProvider(dbs...)
	e := sqle.NewDefault(pro)
	e.Analyzer.Catalog.MySQLDb.SetPersister(&mysql_db.NoopPersister{})
	e.Analyzer.Catalog.MySQLDb.AddRootAccount()
	return &core.Eng{E: e, Pro: pro, DB: dbs[0].Name()}
}

// NewEngNamed makes an engine over fresh plain memory databases with the given names.
func NewEngNamed(names ...string) *core.Eng {
	dbs := make([]sql.Database, len(names))
	for i, n := range names {
		dbs[i] = memory.NewDatabase(n)
	}
	return NewEng(dbs...)
}

// FP is a database fingerprint: per database, a sorted list of lines describing every object and
// every row. Two fingerprints are equal iff data and schema are observably equal through SQL.
type FP struct {
	DBs  map[string][]string
	Errs []string // statements of the fingerprint itself that failed (fingerprint unusable when non-empty)
}

// Flat renders the fingerprint of all databases (or of one, when only != "").
func (f *FP) Flat(only string) []string {
	var names []string
	for n := range f.DBs {
		if only == "" || strings.EqualFold(n, only) {
			names = append(names, n)
		}
	}
	sort.Strings(names)
	var out []string
	for _, n := range names {
		out = append(out, "DATABASE "+n)
		out = append(out, f.DBs[n]...)
	}
	if only != "" && len(names) == 0 {
		out = append(out, "DATABASE "+only+" IS MISSING")
	}
	return out
}

// Diff returns up to max lines present in exactly one of the two flat fingerprints.
func Diff(a, b []string, max int) []string {
	ma := map[string]int{}
	for _, l := range a {
		ma[l]++
	}
	var out []string
	for _, l := range b {
		if ma[l] > 0 {
			ma[l]--
		} else if len(out) < max {
			out = append(out, "+ "+core.Clip(l, 300))
		}
	}
	mb := map[string]int{}
	for _, l := range b {
		mb[l]++
	}
	for _, l := range a {
		if mb[l] > 0 {
			mb[l]--
		} else if len(out) < 2*max {
			out = append(out, "- "+core.Clip(l, 300))
		}
	}
	return out
}

// Same reports whether two flat fingerprints are identical.
func Same(a, b []string) bool { return core.SameStrings(a, b) }

func quoteIdent(s string) string { return "`" + strings.ReplaceAll(s, "`", "``") + "`" }

// QuoteIdent backtick-quotes an identifier.
func QuoteIdent(s string) string { return quoteIdent(s) }

func colIdx(sch sql.Schema, name string) int {
	for i, c := range sch {
		if strings.EqualFold(c.Name, name) {
			return i
		}
	}
	return -1
}

// pick projects the named columns (by result-schema name) of every row; a missing column renders "?".
func pick(res *core.Result, cols ...string) []string {
	idx := make([]int, len(cols))
	for i, c := range cols {
		idx[i] = colIdx(res.Schema, c)
	}
	out := make([]string, 0, len(res.Rows))
	for _, row := range res.Rows {
		parts := make([]string, len(cols))
		for i, k := range idx {
			if k < 0 || k >= len(row) {
				parts[i] = "?"
			} else {
				parts[i] = core.Canon(row[k])
			}
		}
		out = append(out, strings.Join(parts, "|"))
	}
	sort.Strings(out)
	return out
}

// Fingerprint observes, through a fresh session of the engine, every user database: SHOW FULL TABLES,
// SHOW CREATE of every table and view, all rows of every base table (sorted), SHOW TRIGGERS, SHOW
// PROCEDURE/FUNCTION STATUS + SHOW CREATE PROCEDURE, SHOW EVENTS. Volatile columns (timestamps) are
// projected away. Temporary tables, session variables, prepared statements, global variables and
// accounts are deliberately not part of it.
func Fingerprint(e *core.Eng) *FP { return FingerprintOn(e.NewSess()) }

// FingerprintOn computes the fingerprint through the given (fresh) session.
func FingerprintOn(s *core.Sess) *FP {
	// the engine's default database may have been dropped by the statement under observation
	s.S.SetCurrentDatabase("information_schema")
	fp := &FP{DBs: map[string][]string{}}
	fail := func(q string, r *core.Result) {
		fp.Errs = append(fp.Errs, fmt.Sprintf("%s: err=%v panic=%v timeout=%v", q, r.Err, r.Panic != nil, r.TimedOut))
	}
	q := "SHOW DATABASES"
	dbsRes := s.Exec(q)
	if dbsRes.Failed() {
		fail(q, dbsRes)
		return fp
	}
	for _, row := range dbsRes.Rows {
		db := fmt.Sprint(row[0])
		if strings.EqualFold(db, "information_schema") || strings.EqualFold(db, "mysql") {
			continue
		}
		var lines []string
		qd := quoteIdent(db)
		q = "SHOW CREATE DATABASE " + qd
		if r := s.Exec(q); r.Failed() {
			fail(q, r)
		} else {
			for _, l := range pick(r, "Create Database") {
				lines = append(lines, "CREATE DATABASE "+l)
			}
		}
		q = "SHOW FULL TABLES FROM " + qd
		tr := s.Exec(q)
		if tr.Failed() {
			fail(q, tr)
			continue
		}
		for _, trow := range tr.Rows {
			name, typ := fmt.Sprint(trow[0]), fmt.Sprint(trow[1])
			lines = append(lines, fmt.Sprintf("OBJECT %s %s", typ, name))
			q = fmt.Sprintf("SHOW CREATE TABLE %s.%s", qd, quoteIdent(name))
			cr := s.Exec(q)
			if cr.Failed() {
				// a view whose definition no longer resolves still has to be listed; record the failure text
				lines = append(lines, fmt.Sprintf("CREATE %s: ERROR %s", name, cr.ErrClass()))
			} else {
				for _, r := range cr.Rows {
					lines = append(lines, fmt.Sprintf("CREATE %s: %s", name, core.Canon(r[1])))
				}
			}
			if strings.EqualFold(typ, "BASE TABLE") {
				q = fmt.Sprintf("SELECT * FROM %s.%s", qd, quoteIdent(name))
				rr := s.Exec(q)
				if rr.Failed() {
					fail(q, rr)
					continue
				}
				for _, l := range core.SortedRows(rr.Rows) {
					lines = append(lines, fmt.Sprintf("ROW %s: %s", name, l))
				}
			}
		}
		q = "SHOW TRIGGERS FROM " + qd
		if r := s.Exec(q); r.Failed() {
			fail(q, r)
		} else {
			for _, l := range pick(r, "Trigger", "Event", "Table", "Statement", "Timing") {
				lines = append(lines, "TRIGGER "+l)
			}
		}
		for _, kind := range []string{"PROCEDURE", "FUNCTION"} {
			q = fmt.Sprintf("SHOW %s STATUS WHERE Db = '%s'", kind, strings.ReplaceAll(db, "'", "''"))
			r := s.Exec(q)
			if r.Failed() {
				fail(q, r)
				continue
			}
			ni := colIdx(r.Schema, "Name")
			for _, l := range pick(r, "Db", "Name", "Type", "Security_type", "Comment") {
				lines = append(lines, kind+" "+l)
			}
			if kind == "PROCEDURE" && ni >= 0 {
				for _, row := range r.Rows {
					pn := fmt.Sprint(row[ni])
					q = fmt.Sprintf("SHOW CREATE PROCEDURE %s.%s", qd, quoteIdent(pn))
					cr := s.Exec(q)
					if cr.Failed() {
						lines = append(lines, fmt.Sprintf("CREATE PROCEDURE %s: ERROR %s", pn, cr.ErrClass()))
						continue
					}
					for _, l := range pick(cr, "Create Procedure") {
						lines = append(lines, fmt.Sprintf("CREATE PROCEDURE %s: %s", pn, l))
					}
				}
			}
		}
		q = "SHOW EVENTS FROM " + qd
		if r := s.Exec(q); r.Failed() {
			fail(q, r)
		} else {
			for _, l := range pick(r, "Db", "Name", "Type", "Interval value", "Interval field", "Status") {
				lines = append(lines, "EVENT "+l)
			}
		}
		sort.Strings(lines)
		fp.DBs[db] = lines
	}
	return fp
}

// Accounts lists user@host plus the grants of each account (no verdict is based on it in C42; it is
// recorded in evidence).
func Accounts(e *core.Eng) []string {
	s := e.NewSess()
	r := s.Exec("SELECT user, host FROM mysql.user")
	if r.Failed() {
		return []string{"ERROR " + r.ErrClass()}
	}
	var out []string
	for _, row := range r.Rows {
		u, h := fmt.Sprint(row[0]), fmt.Sprint(row[1])
		out = append(out, fmt.Sprintf("ACCOUNT %s@%s", u, h))
		g := s.Exec(fmt.Sprintf("SHOW GRANTS FOR '%s'@'%s'", u, h))
		if g.Failed() {
			out = append(out, fmt.Sprintf("GRANTS %s@%s ERROR %s", u, h, g.ErrClass()))
			continue
		}
		for _, l := range core.SortedRows(g.Rows) {
			out = append(out, fmt.Sprintf("GRANT %s@%s %s", u, h, l))
		}
	}
	sort.Strings(out)
	return out
}
