package g9blib

import (
	"fmt"
	"math/rand"
	"strings"
)

// Fixed base tables that generated views, triggers and procedures refer to.
var BaseDDL = []string{
	"CREATE TABLE `base` (`id` int NOT NULL, `a` int, `s` varchar(20), `d` decimal(10,2), PRIMARY KEY (`id`), KEY `ia` (`a`))",
	"CREATE TABLE `log` (`n` int NOT NULL AUTO_INCREMENT, `msg` varchar(100), PRIMARY KEY (`n`))",
}

// BaseRows fills the base table.
var BaseRows = []string{
	"INSERT INTO `base` VALUES (1, 3, 'apple', 1.50), (2, 8, 'Bob', 20.25), (3, NULL, NULL, NULL), (4, 8, 'it''s', -3.00), (5, 0, '', 0.00)",
}

// View is a generated view.
type View struct {
	Name    string
	Prefix  string // between CREATE and VIEW, e.g. "OR REPLACE ALGORITHM=MERGE"
	Select  string
	Columns []string // output column names in order (plain palette only)
}

func (v *View) SQL() string {
	p := ""
	if v.Prefix != "" {
		p = v.Prefix + " "
	}
	return "CREATE " + p + "VIEW " + Q(v.Name) + " AS " + v.Select
}

// GenView draws a view over `base`.
func GenView(r *rand.Rand, name string, rich bool) *View {
	v := &View{Name: name}
	type item struct{ expr, alias string }
	pool := []item{
		{"id", "id"}, {"a", "a"}, {"s", "s"}, {"d", "d"},
		{"a + 1", "a1"}, {"upper(s)", "us"}, {"d * 2", "d2"}, {"coalesce(s, 'n/a')", "cs"},
		{"CASE WHEN a > 5 THEN 'big' ELSE 'small' END", "sz"}, {"length(s)", "ls"},
	}
	if rich {
		pool = append(pool,
			item{"concat(s, 'it''s', '\"q\"')", "quoted"},
			item{"(SELECT count(*) FROM base b2 WHERE b2.a <= base.a)", "rnk"},
			item{"a IS NULL OR (a BETWEEN 1 AND 5 AND NOT (s LIKE 'a%'))", "pred"},
			item{"CAST(d AS SIGNED)", "di"}, item{"id", "my col"}, item{"id", "select"}, item{"a", "x`y"},
			item{"nullif(a, 8)", "nz"}, item{"-(a) * (id + 2) % 3", "arith"}, item{"s COLLATE utf8mb4_general_ci", "sc"},
		)
	}
	n := 1 + r.Intn(4)
	seen := map[string]bool{}
	var sel []string
	for len(sel) < n {
		it := pool[r.Intn(len(pool))]
		if seen[it.alias] {
			continue
		}
		seen[it.alias] = true
		if it.expr == it.alias {
			sel = append(sel, it.expr)
		} else {
			sel = append(sel, it.expr+" AS "+Q(it.alias))
		}
		v.Columns = append(v.Columns, it.alias)
	}
	q := "SELECT " + strings.Join(sel, ", ") + " FROM base"
	switch r.Intn(5) {
	case 0:
		q += fmt.Sprintf(" WHERE a > %d", r.Intn(9))
	case 1:
		q += " WHERE s LIKE 'a%' OR a IS NULL"
	case 2:
		if rich {
			q += " WHERE id IN (SELECT id FROM base WHERE a >= 0) AND (d < 100 OR d IS NULL)"
		}
	}
	if rich && r.Intn(6) == 0 {
		q += " ORDER BY id DESC LIMIT 3"
	}
	if rich && r.Intn(8) == 0 {
		q = "SELECT a, count(*) AS c, max(s) AS ms FROM base GROUP BY a HAVING count(*) >= 1"
		v.Columns = []string{"a", "c", "ms"}
	}
	if rich && r.Intn(8) == 0 {
		q = "SELECT id, s FROM base WHERE a > 5 UNION SELECT id + 100, upper(s) FROM base WHERE a <= 5"
		v.Columns = []string{"id", "s"}
	}
	v.Select = q
	if rich {
		switch r.Intn(8) {
		case 0:
			v.Prefix = "OR REPLACE"
		case 1:
			v.Prefix = "ALGORITHM=MERGE"
		case 2:
			v.Prefix = "SQL SECURITY INVOKER"
		case 3:
			v.Prefix = "DEFINER=`root`@`localhost` SQL SECURITY DEFINER"
		}
	}
	return v
}

// Trigger is a generated trigger on `base`.
type Trigger struct {
	Name   string
	Timing string // BEFORE / AFTER
	Event  string // INSERT / UPDATE / DELETE
	Table  string
	Order  string // "", "FOLLOWS `x`", "PRECEDES `x`"
	Body   string
}

func (t *Trigger) SQL() string {
	o := ""
	if t.Order != "" {
		o = t.Order + " "
	}
	return fmt.Sprintf("CREATE TRIGGER %s %s %s ON %s FOR EACH ROW %s%s", Q(t.Name), t.Timing, t.Event, Q(t.Table), o, t.Body)
}

// GenTrigger draws a trigger on `base`; other is the name of an existing trigger with the same
// timing and event ("" = none) that FOLLOWS / PRECEDES may name.
func GenTrigger(r *rand.Rand, name, timing, event, other string, rich bool) *Trigger {
	t := &Trigger{Name: name, Table: "base", Timing: timing, Event: event}
	row := "NEW"
	if event == "DELETE" {
		row = "OLD"
	}
	var bodies []string
	if timing == "BEFORE" && event != "DELETE" {
		bodies = append(bodies, "SET NEW.a = NEW.a + 1", "SET NEW.s = upper(NEW.s)", "SET NEW.a = coalesce(NEW.a, 0) * 2, NEW.d = 9.75")
		if rich {
			bodies = append(bodies, "BEGIN IF NEW.a > 5 THEN SET NEW.s = 'big'; ELSE SET NEW.s = 'it''s small'; END IF; END",
				"BEGIN DECLARE k INT DEFAULT 3; SET NEW.a = NEW.a + k; INSERT INTO log (msg) VALUES (concat('b ', NEW.id)); END")
		}
	}
	bodies = append(bodies, "INSERT INTO log (msg) VALUES (concat('"+strings.ToLower(timing[:1]+event[:1])+" ', "+row+".id))")
	if rich {
		bodies = append(bodies, "INSERT INTO log (msg) VALUES (concat('q''uote \"d\" ', coalesce("+row+".s, '-')))",
			"BEGIN INSERT INTO log (msg) VALUES ('one'); INSERT INTO log (msg) VALUES (concat('two ', "+row+".a)); END")
	}
	t.Body = bodies[r.Intn(len(bodies))]
	if other != "" && r.Intn(2) == 0 {
		t.Order = pickS(r, []string{"FOLLOWS", "PRECEDES"}) + " " + Q(other)
	}
	return t
}

// Param is a procedure parameter.
type Param struct {
	Mode string // IN / OUT / INOUT / "" (= IN)
	Name string
	Type string
}

// Proc is a generated procedure.
type Proc struct {
	Name    string
	Params  []Param
	Chars   []string // characteristics as written
	Body    string
	Comment string
}

func (p *Proc) SQL() string {
	var ps []string
	for _, a := range p.Params {
		m := a.Mode
		if m != "" {
			m += " "
		}
		ps = append(ps, m+a.Name+" "+a.Type)
	}
	ch := ""
	if len(p.Chars) > 0 {
		ch = " " + strings.Join(p.Chars, " ")
	}
	return fmt.Sprintf("CREATE PROCEDURE %s(%s)%s %s", Q(p.Name), strings.Join(ps, ", "), ch, p.Body)
}

// CallSQL returns statements that call the procedure with fixed arguments and read its OUT values.
func (p *Proc) CallSQL() (pre []string, call string, post string) {
	var args, outs []string
	for i, a := range p.Params {
		v := fmt.Sprintf("@p%d", i)
		switch a.Mode {
		case "OUT":
			pre = append(pre, "SET "+v+" = NULL")
			args = append(args, v)
			outs = append(outs, v)
		case "INOUT":
			if strings.HasPrefix(a.Type, "VARCHAR") {
				pre = append(pre, "SET "+v+" = 'io'")
			} else {
				pre = append(pre, "SET "+v+" = 5")
			}
			args = append(args, v)
			outs = append(outs, v)
		default:
			if strings.HasPrefix(a.Type, "VARCHAR") {
				args = append(args, "'arg'")
			} else {
				args = append(args, fmt.Sprint(3+i))
			}
		}
	}
	call = "CALL " + Q(p.Name) + "(" + strings.Join(args, ", ") + ")"
	if len(outs) > 0 {
		post = "SELECT " + strings.Join(outs, ", ")
	}
	return
}

// GenProc draws a procedure.
func GenProc(r *rand.Rand, name string, rich bool) *Proc {
	p := &Proc{Name: name}
	shape := r.Intn(6)
	switch shape {
	case 0:
		p.Params = []Param{{"", "x", "INT"}}
		p.Body = "SELECT x + 1 AS r"
	case 1:
		p.Params = []Param{{"IN", "x", "INT"}, {"OUT", "y", "INT"}}
		p.Body = "SET y = x * 2"
	case 2:
		p.Params = []Param{{"IN", "x", "INT"}, {"INOUT", "z", "VARCHAR(20)"}}
		p.Body = "BEGIN SET z = concat(z, '-', x, '-it''s'); INSERT INTO log (msg) VALUES (z); END"
	case 3:
		p.Params = []Param{{"INOUT", "n", "BIGINT"}, {"OUT", "acc", "DECIMAL(10,2)"}}
		p.Body = "BEGIN DECLARE i INT DEFAULT 0; SET acc = 0; WHILE i < n DO SET acc = acc + 1.25; SET i = i + 1; END WHILE; SET n = i; END"
	case 4:
		p.Params = nil
		p.Body = "BEGIN INSERT INTO log (msg) SELECT concat('p ', s) FROM base WHERE a > 5 ORDER BY id; SELECT count(*) AS c FROM log; END"
	default:
		p.Params = []Param{{"IN", "lim", "INT"}, {"OUT", "cnt", "INT"}}
		p.Body = "BEGIN IF lim > 3 THEN SELECT count(*) INTO cnt FROM base WHERE a <= lim; ELSE SET cnt = -1; END IF; END"
	}
	if rich {
		if r.Intn(3) == 0 {
			p.Comment = "proc " + pickS(r, strPool)
			p.Chars = append(p.Chars, "COMMENT "+Lit(p.Comment))
		}
		if r.Intn(4) == 0 {
			p.Chars = append(p.Chars, "LANGUAGE SQL")
		}
		if r.Intn(3) == 0 {
			p.Chars = append(p.Chars, pickS(r, []string{"DETERMINISTIC", "NOT DETERMINISTIC"}))
		}
		if r.Intn(3) == 0 {
			p.Chars = append(p.Chars, pickS(r, []string{"CONTAINS SQL", "NO SQL", "READS SQL DATA", "MODIFIES SQL DATA"}))
		}
		if r.Intn(3) == 0 {
			p.Chars = append(p.Chars, "SQL SECURITY "+pickS(r, []string{"DEFINER", "INVOKER"}))
		}
	}
	return p
}
