module verif/harness

go 1.26.2

require (
	github.com/anishathalye/porcupine v1.3.0
	github.com/cockroachdb/apd/v3 v3.2.3
	github.com/dolthub/go-mysql-server v0.0.0
	github.com/dolthub/vitess v0.0.0-20260819175407-19559ab533b7
	github.com/go-sql-driver/mysql v1.9.3
	github.com/sirupsen/logrus v1.8.3
	golang.org/x/sync v0.20.0
)

require (
	filippo.io/edwards25519 v1.1.1 // indirect
	github.com/cespare/xxhash/v2 v2.3.0 // indirect
	github.com/dolthub/flatbuffers/v23 v23.3.3-dh.2 // indirect
	github.com/dolthub/go-icu-regex v0.0.0-20260610153742-72563bc7ca83 // indirect
	github.com/dolthub/jsonpath v0.0.2-0.20260807003725-336cd89c1c76 // indirect
	github.com/google/uuid v1.6.0 // indirect
	github.com/hashicorp/golang-lru v0.5.4 // indirect
	github.com/lestrrat-go/strftime v1.2.0 // indirect
	github.com/pkg/errors v0.9.1 // indirect
	github.com/pmezard/go-difflib v1.0.0 // indirect
	go.opentelemetry.io/otel v1.41.0 // indirect
	go.opentelemetry.io/otel/trace v1.41.0 // indirect
	golang.org/x/sys v0.45.0 // indirect
	golang.org/x/text v0.37.0 // indirect
	golang.org/x/tools v0.45.0 // indirect
	google.golang.org/genproto v0.0.0-20230410155749-daa745c078e1 // indirect
	google.golang.org/grpc v1.79.3 // indirect
	google.golang.org/protobuf v1.36.10 // indirect
	gopkg.in/src-d/go-errors.v1 v1.0.0 // indirect
)

replace github.com/dolthub/go-mysql-server => /repo
