#!/bin/bash
# ./import_seeded.sh <ID> "<verification summary line>" : copies /tmp/seeded-out/<ID> to seeded/<ID> and records what was run
id="$1"; line="$2"
mkdir -p /verif/seeded/$id && cp /tmp/seeded-out/$id/patch.diff /tmp/seeded-out/$id/verif_demo_test.go /verif/seeded/$id/
python3 - "$id" "$line" <<'PY'
import json,sys
i,line=sys.argv[1],sys.argv[2]
m=json.load(open(f'/tmp/seeded-out/{i}/meta.json'))
m['coordinator_verification']={'ran':'verify_seeded.sh in a fresh scratch worktree: demo without patch, demo with patch, go build -tags verif ./..., pinned suite with tag off','result':line}
json.dump(m,open(f'/verif/seeded/{i}/meta.json','w'),indent=1)
PY
