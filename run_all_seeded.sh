#!/bin/bash
# runs every imported seeded break against the check of its property (quick; thorough if quick misses) and records the result
cd "$(dirname "$0")"
export VERIF_WORKERS=${VERIF_WORKERS:-8}
reg=$(python3 -c "import json;print(' '.join(c['property_id'] for c in json.load(open('MANIFEST.json'))['checks']))")
for d in seeded/*/; do
  id=$(basename $d)
  [ -f "$d/meta.json" ] || continue
  prop=$(python3 -c "import json;print(json.load(open('$d/meta.json'))['property'])")
  echo " $reg " | grep -q " $prop " || { echo "seeded=$id property=$prop not registered yet"; continue; }
  grep -q "^seeded=$id check=$prop tier=quick fired=yes" seeded/RESULTS.txt 2>/dev/null && continue
  grep -q "^seeded=$id check=$prop tier=thorough" seeded/RESULTS.txt 2>/dev/null && continue
  line=$(./run_seeded.sh $id quick | tail -1)
  echo "$line" | tee -a seeded/RESULTS.txt
  if echo "$line" | grep -q "fired=no"; then
    line=$(./run_seeded.sh $id thorough | tail -1); echo "$line" | tee -a seeded/RESULTS.txt
  fi
done
