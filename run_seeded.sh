#!/bin/bash
# ./run_seeded.sh <seeded-id> [tier]   applies seeded/<seeded-id>/patch.diff to a scratch worktree of /repo
# (under /tmp, removed afterwards), runs the check of the property it breaks against it, and reports whether
# the check fired. Never touches /repo's working tree.
cd "$(dirname "$0")"; V="$(pwd)"
sid="$1"; tier="${2:-quick}"
dir="$V/seeded/$sid"
prop=$(python3 -c "import json;print(json.load(open('$dir/meta.json'))['property'])")
checks="${SEEDED_CHECKS:-$prop}"
wt="/tmp/seeded-wt-$sid-$$"
git -C /repo worktree add --detach "$wt" HEAD >/dev/null 2>&1 || { echo "worktree failed"; exit 2; }
if ! git -C "$wt" apply "$dir/patch.diff"; then echo "patch does not apply: $sid"; git -C /repo worktree remove --force "$wt"; exit 2; fi
for c in $checks; do
  out=$(VERIF_REPO="$wt" ./check "$c" "$tier" 2>&1); rc=$?
  fired=no; echo "$out" | grep -q '^VIOLATION' && fired=yes
  echo "seeded=$sid check=$c tier=$tier fired=$fired rc=$rc :: $(echo "$out" | grep -E '^VIOLATION' | head -2 | cut -c1-220 | tr '\n' ' ')"
done
git -C /repo worktree remove --force "$wt"
