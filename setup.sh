#!/bin/bash
# Builds every monitor binary from /repo's working tree (tag verif), warming the Go build cache.
set -u
cd "$(dirname "$0")"; V="$(pwd)"; . "$V/env.sh"
mkdir -p bin .scratch evidence replay
fail=0
cd harness
go1.26.8 build -tags verif ./core/... || fail=1
for d in cmd/*/; do
  n=$(basename "$d"); R=""; [ -f "$d/RACE" ] && R="-race"
  go1.26.8 build -tags verif $R -o "$V/bin/$n" "./cmd/$n" || { echo "build failed: $n"; fail=1; }
done
exit $fail
