#!/bin/bash
# Builds the monitor binary of every check registered in MANIFEST.json from /repo's working tree
# (tag verif; -race where the monitor asks for it), warming the Go build cache. Offline.
set -u
cd "$(dirname "$0")"; V="$(pwd)"; . "$V/env.sh"
mkdir -p bin .scratch evidence replay
ids=$(python3 -c "import json;print(' '.join(c['property_id'].lower() for c in json.load(open('MANIFEST.json'))['checks']))")
fail=0
cd harness
go1.26.8 build -tags verif ./core/... || fail=1
for n in $ids; do
  d="cmd/$n"; [ -d "$d" ] || { echo "missing $d"; fail=1; continue; }
  R=""; [ -f "$d/RACE" ] && R="-race"
  go1.26.8 build -tags verif $R -o "$V/bin/$n" "./cmd/$n" || { echo "build failed: $n"; fail=1; }
done
exit $fail
