#!/usr/bin/env python3
"""Lists known: lines whose signature neither had a failing pinned witness nor an exploration hit in the
latest evidence of that property (candidates for removal: a known line for a defect that no longer shows
would hide its return)."""
import json,glob,re,os
V=os.path.dirname(os.path.abspath(__file__))
for f in sorted(glob.glob(V+'/findings/*.txt'))+[V+'/KNOWN_FINDINGS.txt']:
    for ln in open(f):
        ln=ln.strip()
        if not ln.startswith('known:'): continue
        m=re.search(r'property=(\S+)',ln); prop=m.group(1)
        rest=ln[6:].split('::')[0]
        k=rest.index('sig=')+4
        sig=rest[k:]
        if ' via=' in sig: sig=sig[:sig.index(' via=')]
        sig=sig.strip()
        ev=V+f'/evidence/{prop}.json'
        if not os.path.exists(ev): print('NOEVID',prop,sig); continue
        c=json.load(open(ev))['coverage']
        if sig in c.get('known_pinned_failing',{}) or c.get('known_finding_hits',{}).get(sig,0)>0: continue
        print('STALE',os.path.basename(f),prop,sig[:120])
