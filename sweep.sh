#!/bin/bash
# ./sweep.sh <tier> <seeds...> [-- ID ...]   runs the registered checks at several seeds, sequentially,
# and prints one line per (check, seed): rc and any VIOLATION / KNOWN-FINDING lines. Used during construction.
cd "$(dirname "$0")"
tier="$1"; shift
seeds=(); ids=()
while [ $# -gt 0 ] && [ "$1" != "--" ]; do seeds+=("$1"); shift; done
[ "${1:-}" = "--" ] && shift
ids=("$@")
if [ ${#ids[@]} -eq 0 ]; then
  ids=($(python3 -c "import json;print(' '.join(c['property_id'] for c in json.load(open('MANIFEST.json'))['checks']))"))
fi
for id in "${ids[@]}"; do
  for s in "${seeds[@]}"; do
    out=$(VERIF_SEED=$s ./check "$id" "$tier" 2>&1); rc=$?
    echo "== $id $tier seed=$s rc=$rc :: $(echo "$out" | grep -E "^$id " | tail -1)"
    echo "$out" | grep -E '^(VIOLATION|INCONCLUSIVE)' | sed 's/^/   /'
    echo "$out" | grep -E '^KNOWN-FINDING' | cut -c1-160 | sed 's/^/   /'
  done
done
