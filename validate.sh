#!/bin/bash
# validates MANIFEST.json and every evidence file against the schemas
cd "$(dirname "$0")"
python3-vt - <<'PY'
import json,glob,jsonschema,sys
ok=True
try:
    jsonschema.validate(json.load(open('MANIFEST.json')), json.load(open('/root/.vp/MANIFEST.schema.json')))
except Exception as e:
    ok=False; print('MANIFEST invalid:', str(e)[:300])
es=json.load(open('/root/.vp/EVIDENCE.schema.json'))
for f in sorted(glob.glob('evidence/*.json')):
    try: jsonschema.validate(json.load(open(f)), es)
    except Exception as e:
        ok=False; print(f,'invalid:',str(e)[:300])
print('valid' if ok else 'INVALID'); sys.exit(0 if ok else 1)
PY
