#!/bin/bash
# ./verify_seeded.sh <dir-with-patch.diff+verif_demo_test.go+meta.json> : independent confirmation of a seeded break in a
# scratch worktree: demo passes without the patch, fails with it, the tree still compiles with -tags verif, and the
# pinned suite (tag off) still has 162 passing tests. Prints one summary line; removes the worktree.
. /verif/env.sh
src="$1"; id=$(basename "$src"); wt="/tmp/vs-$id-$$"
git -C /repo worktree add --detach "$wt" HEAD >/dev/null 2>&1 || { echo "$id: worktree failed"; exit 2; }
cp "$src/verif_demo_test.go" "$wt/"
cd "$wt"
timeout 1500 go1.26.8 test -trimpath -tags verif -vet=off -count=1 -run TestVerifDemo . > /tmp/vs-$id-base.log 2>&1; base=$?
git apply "$src/patch.diff" || { echo "$id: patch does not apply"; cd /; git -C /repo worktree remove --force "$wt"; exit 2; }
timeout 1500 go1.26.8 test -trimpath -tags verif -vet=off -count=1 -run TestVerifDemo . > /tmp/vs-$id-mut.log 2>&1; mut=$?
timeout 1500 go1.26.8 build -trimpath -tags verif ./... > /tmp/vs-$id-build.log 2>&1; bld=$?
rm -f verif_demo_test.go
pinned=$(timeout 1500 go1.26.8 test -trimpath -json -vet=off -count=1 ./... 2>/dev/null | python3 -c "
import sys,json
p=0
for l in sys.stdin:
    try: e=json.loads(l)
    except: continue
    if e.get('Test') and e.get('Action')=='pass': p+=1
print(p)")
cd /; git -C /repo worktree remove --force "$wt"
echo "$id: demo_without_patch_rc=$base demo_with_patch_rc=$mut build_rc=$bld pinned_pass=$pinned"
